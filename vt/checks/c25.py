"""C25 — the template cache serves the current source, is LRU-bounded, and a
size-0 cache recompiles: exhaustive operation histories on real loaders,
monitored against a nondeterministic reference cache model."""
from __future__ import annotations

import importlib
import itertools
import os
import shutil
import sys
import tempfile
import weakref

from vt.model import c25_tplcache as M

PID = "C25"
LEVEL = "exploration"
TECHNIQUE = "reference-model monitor (state-set tracking) over exhaustively enumerated operation histories"
RULE = ("(1) every history of length<=L (quick 4; thorough 6 for DictLoader, 5 for the others) over the "
        "alphabet {get a|b|c, select [a,b]|[b,a], modify a|b (toggle between 2 source versions), "
        "delete a|b, add a|b, swap env.loader to a second loader of the same kind (auto_reload "
        "only)} whose last op is a get/select (a trailing mutation is unobservable) and that "
        "contain no mutation that does nothing (add of an existing / delete or modify of a deleted "
        "name: identical to the shorter history); length-6 histories only up to renaming a<->b; "
        "executed for "
        "cache_size in {0,1,2,-1} (and 3 for length>=5: a shorter history cannot fill 3 slots) x "
        "auto_reload in {on,off} x {DictLoader, FunctionLoader returning "
        "str, FunctionLoader returning (src,None,uptodate), FileSystemLoader on a temp dir with "
        "os.utime-forced unique mtimes that move UP with every source change, PackageLoader on a "
        "directory package created in a scratch directory on sys.path (same forced mtimes; "
        "exhaustive part with auto_reload on only), and (auto_reload on, "
        "histories that write a file) FileSystemLoader with mtimes that move DOWN with every change "
        "/ re-creation}; one source version of one name per loader is the EMPTY template; any "
        "exception other than TemplateNotFound out of get_template/select_template is a violation "
        "on every loader kind; (2) per shard 32 (thorough 800) random histories of length 5..9 (6..12) over "
        "the same alphabet on cache sizes {1,2,3} + alternately 0 / -1 (auto_reload off only for "
        "DictLoader and FileSystemLoader) and additionally FileSystemLoader with "
        "zigzag mtimes (alternately above/below the initial one) and PackageLoader with mtimes moving "
        "up and down; (3) bytecode caches (the template cache must behave the same whether the code "
        "of a template was compiled or came out of a bytecode cache): every 10th (loader, cache size, "
        "auto_reload) execution of the enumerated histories and every 2nd of the long ones -- the "
        "choice rotating from history to history -- is repeated with Environment(bytecode_cache=...) "
        "in one of the modes cold (empty in-memory BytecodeCache subclass of the harness: hits after "
        "LRU eviction / after a source went back to an earlier version), warm (the same cache already "
        "holding the code of every source version of every name, stored through get_bucket/set_bucket "
        "by ANOTHER environment: the restarted-process / shared-cache situation, every load is a hit) "
        "and, long histories only, fswarm (FileSystemBytecodeCache directory filled the same way and "
        "shared by all environments of the shard); the reference model is the same as without a "
        "bytecode cache. Per lookup the harness observes the names passed to "
        "loader.get_source (instance wrapper), returned template identity, render text / "
        "TemplateNotFound, and after the lookup len(env.cache) and the (loader, name) pairs in "
        "env.cache.keys() (for a bounded cache also their order, documented as most recently used "
        "first); accepted iff some state of the reference model "
        "predicts exactly that (so: no stale serve, no needless reload of a valid cached template, "
        "eviction only when room is needed and only of the least recently used entry, no lost or "
        "duplicate entry). distinct = distinct op sequences of length 2..5 (length-6 ones are "
        "only counted, see histories_len6) + distinct random long histories")
LEVEL_TEXT = ("held on every enumerated (history, cache size, auto_reload, loader) execution up to the "
              "stated length bound; nothing is claimed for longer histories, more than 3 names or "
              "concurrent use")
ASSUMPTIONS = [
    "single-threaded use of the environment; at most 3 template names, 2 source versions per name, 2 loaders",
    "FileSystemLoader change detection is exercised only through distinct whole-second mtimes set with "
    "os.utime (increasing, decreasing and alternating around the initial mtime); a rewrite that keeps "
    "the very same mtime is not generated (the loader cannot see it)",
    "cache content is read through env.cache (len, keys()); keys are taken to be tuples holding the "
    "template name and the loader or a weak reference to it -- if that layout changes the content "
    "checks stop (counter cache_keys_unreadable) and the floor on cache_content_checks turns the run "
    "INCONCLUSIVE",
    "PackageLoader only on a regular directory package (the zip variant supplies no up-to-date check)",
    "where the documentation is silent (same text rewritten; stale entry after a failed reload) either behaviour is accepted",
    "bytecode caches: an in-memory BytecodeCache subclass and FileSystemBytecodeCache, both counting "
    "loads that came back with code; a bytecode cache is expected to be invisible in everything the "
    "check observes (loader calls, template identity, text, cache content); memcached is not used",
    "swapping env.loader is only enumerated with auto_reload on (the documentation does not say what a "
    "non-reloading environment does after its loader attribute is replaced)",
]
NSHARDS = {"quick": 16, "thorough": 16}
BUDGET_S = {"quick": 105, "thorough": 1200}
FLOORS = {
    "quick": {"evaluations": 36000, "distinct": 1300,
              "counters": {"lookups": 90000, "loader_calls": 80000, "served_from_cache": 16000,
                           "reload_of_cached": 750, "notfound": 5000, "evicting_loads": 9500,
                           "exec_dict": 9000, "exec_func": 9000, "exec_funcup": 9000,
                           "exec_fs": 9000, "exec_fsdn": 3000, "exec_fszz": 400, "exec_size3": 900,
                           "exec_pkg": 6000, "exec_pkgdn": 400, "empty_template_served": 10000,
                           "lookup_of_deleted_cached": 2400,
                           "pkg_reload_check_on_deleted_file": 280,
                           "long_histories": 128, "cache_len_checks": 90000,
                           "cache_content_checks": 90000, "cache_order_checks": 60000,
                           "reload_in_full_cache": 270, "fs_reload_mtime_backwards": 300,
                           "exec_bcc_cold": 3500, "exec_bcc_warm": 3500, "exec_bcc_fswarm": 800,
                           "bytecode_hits": 4500, "lookup_of_changed_bytecode_loaded": 160}},
    "thorough": {"evaluations": 650000, "distinct": 12000,
                 "counters": {"lookups": 1700000, "loader_calls": 1400000,
                              "served_from_cache": 280000, "reload_of_cached": 13000,
                              "notfound": 90000, "evicting_loads": 170000,
                              "exec_dict": 400000, "exec_func": 80000, "exec_funcup": 80000,
                              "exec_fs": 80000, "histories_len6": 50000, "exec_fsdn": 49000,
                              "exec_pkg": 80000, "exec_pkgdn": 11000,
                              "empty_template_served": 330000, "lookup_of_deleted_cached": 130000,
                              "pkg_reload_check_on_deleted_file": 7500,
                              "exec_fszz": 11000, "exec_size3": 190000, "long_histories": 3200,
                              "cache_len_checks": 2800000, "cache_content_checks": 2800000,
                              "cache_order_checks": 2200000, "reload_in_full_cache": 17000,
                              "fs_reload_mtime_backwards": 9800,
                              "exec_bcc_cold": 80000, "exec_bcc_warm": 80000,
                              "exec_bcc_fswarm": 21000, "bytecode_hits": 145000,
                              "lookup_of_changed_bytecode_loaded": 7500}},
}

NAMES = ("a", "b", "c")
GET_OPS = ("ga", "gb", "gc", "sab", "sba")
MUT_OPS = ("ma", "mb", "da", "db", "na", "nb", "w")
OPS = GET_OPS + MUT_OPS
KINDS = ("dict", "func", "funcup", "fs", "pkg")
SIZES = (0, 1, 2, -1)
SIZES_LONG = (0, 1, 2, 3, -1)        # histories of length >= 5 can fill a 3-slot cache
# loaders reading real files -> direction in which the forced mtimes move;
# pkg* = PackageLoader on a directory package (importable from a scratch
# directory put on sys.path), templates below <package>/templates
FS_KINDS = {"fs": "up", "fsdn": "down", "fszz": "zigzag", "pkg": "up", "pkgdn": "down"}
PKG_KINDS = ("pkg", "pkgdn")
LONG_KINDS = ("dict", "func", "funcup", "fs", "fsdn", "fszz", "pkg", "pkgdn")
MT_BASE = 1_000_000_000


def mtime_of(mode, stamp):
    """Forced modification time of the stamp-th source change (stamp 0 = initial
    file).  up: every change is newer than all before; down: every change is
    OLDER than all before (rollback, cp -p, archive extraction, re-creation with
    an old timestamp); zigzag: alternately above and below the initial time.
    Always unique per stamp, whole seconds."""
    if mode == "up":
        off = stamp
    elif mode == "down":
        off = -stamp
    else:
        off = stamp if stamp % 2 else -stamp
    return MT_BASE + 10 * off


def text_of(lid, name, ver):
    """Source of version ``ver`` of ``name`` in loader ``lid``.  Two of them are
    the EMPTY template (a template that exists and renders ''): the second
    version of 'b' in the first loader and 'c' in the second one."""
    if (lid, name, ver) in ((0, "b", 1), (1, "c", 0)):
        return ""
    return f"{name}{lid}v{ver}"


def scratch_dir(prefix):
    """tempfile.mkdtemp, on tmpfs when there is one (the disk under /tmp is slow and shared)."""
    shm = "/dev/shm"
    base = shm if os.path.isdir(shm) and os.access(shm, os.W_OK | os.X_OK) else None
    return tempfile.mkdtemp(prefix=prefix, dir=base)


BCC_MODES = ("none", "cold", "warm", "fswarm")
_BCC_CLASSES = {}


def bcc_classes():
    """Harness-side bytecode caches (documented extension point: subclass
    BytecodeCache with load_bytecode / dump_bytecode) that count how often a
    bucket came back WITH code, i.e. a template was built without compiling."""
    if _BCC_CLASSES:
        return _BCC_CLASSES
    from jinja2 import BytecodeCache, FileSystemBytecodeCache

    class MemoryBytecodeCache(BytecodeCache):
        def __init__(self, data=None):
            self.data = dict(data or {})
            self.hits = 0

        def load_bytecode(self, bucket):
            raw = self.data.get(bucket.key)
            if raw is not None:
                bucket.bytecode_from_string(raw)
                if bucket.code is not None:
                    self.hits += 1

        def dump_bytecode(self, bucket):
            self.data[bucket.key] = bucket.bytecode_to_string()

    class CountingFSBytecodeCache(FileSystemBytecodeCache):
        hits = 0

        def load_bytecode(self, bucket):
            super().load_bytecode(bucket)
            if bucket.code is not None:
                self.hits += 1

    _BCC_CLASSES["mem"] = MemoryBytecodeCache
    _BCC_CLASSES["fs"] = CountingFSBytecodeCache
    return _BCC_CLASSES


def warm_up(bcc, loaders):
    """What another environment / an earlier process sharing the bytecode cache
    leaves behind: the code of every source version of every name, stored
    through the documented get_bucket / set_bucket interface under the file
    name the loader reports."""
    from jinja2 import Environment

    env = Environment()
    for lid, ld in enumerate(loaders):
        for n in NAMES:
            filename = ld.get_source(env, n)[1]
            for ver in (0, 1):
                src = text_of(lid, n, ver)
                bucket = bcc.get_bucket(env, n, filename, src)
                if bucket.code is None:
                    bucket.code = env.compile(src, n, filename)
                    bcc.set_bucket(bucket)


class Kit:
    """Per-shard scratch: two directories for the FileSystemLoader worlds and two
    importable directory packages for the PackageLoader worlds."""

    def __init__(self):
        self.root = scratch_dir("vt_c25_")
        self.trees = {"fs": [os.path.join(self.root, "w0"), os.path.join(self.root, "w1")]}
        for d in self.trees["fs"]:
            os.mkdir(d)
        self.dirs = self.trees["fs"]
        # package names must be unique per process and per Kit
        uniq = os.path.basename(self.root).replace("-", "_")
        self.pkgroot = os.path.join(self.root, "site")
        os.mkdir(self.pkgroot)
        self.pkgs = [f"c25pkg_{uniq}_{lid}" for lid in (0, 1)]
        self.trees["pkg"] = []
        for p in self.pkgs:
            d = os.path.join(self.pkgroot, p)
            os.makedirs(os.path.join(d, "templates"))
            with open(os.path.join(d, "__init__.py"), "w", encoding="utf-8") as f:
                f.write("")
            self.trees["pkg"].append(os.path.join(d, "templates"))
        sys.path.insert(0, self.pkgroot)
        importlib.invalidate_caches()
        # what is on disk: tree -> [name -> (text, stamp) | absent] per loader id
        self.disk = {t: [dict(), dict()] for t in self.trees}
        self.mode = {t: "up" for t in self.trees}
        # bytecode caches: pre-filled in-memory data per file-name space, and
        # one persistent FileSystemBytecodeCache directory per file-name space
        self.warm_data = {}
        self.bcdirs = {}

    def bytecode_cache(self, mode, kind, loaders):
        """none | cold: empty in-memory bytecode cache | warm: in-memory cache
        already holding the code of every source version (filled by another
        environment) | fswarm: FileSystemBytecodeCache on a directory that
        outlives the environments of this shard and is filled the same way."""
        if mode == "none":
            return None
        cls = bcc_classes()
        if mode == "cold":
            return cls["mem"]()
        space = kind if kind in ("dict", "func", "funcup") else self.tree_of(kind)
        if mode == "warm":
            if space not in self.warm_data:
                b = cls["mem"]()
                warm_up(b, loaders)
                self.warm_data[space] = b.data
            return cls["mem"](self.warm_data[space])
        if mode == "fswarm":
            d = self.bcdirs.get(space)
            if d is None:
                d = self.bcdirs[space] = os.path.join(self.root, "bc_" + space)
                os.mkdir(d)
                warm_up(cls["fs"](d), loaders)
            return cls["fs"](d)
        raise AssertionError(mode)

    @staticmethod
    def tree_of(kind):
        return "pkg" if kind in PKG_KINDS else "fs"

    def put(self, tree, lid, name, val):
        p = os.path.join(self.trees[tree][lid], name)
        disk = self.disk[tree][lid]
        if val is None:
            if name in disk:
                os.remove(p)
                del disk[name]
            return
        with open(p, "w", encoding="utf-8") as f:
            f.write(val[0])
        t = mtime_of(self.mode[tree], val[1])
        os.utime(p, (t, t))
        disk[name] = val

    def reset(self, tree, mode="up"):
        self.mode[tree] = mode        # stamp 0 has the same mtime in every mode
        for lid in (0, 1):
            for n in NAMES:
                want = (text_of(lid, n, 0), 0)
                if self.disk[tree][lid].get(n) != want:
                    self.put(tree, lid, n, want)

    def close(self):
        try:
            sys.path.remove(self.pkgroot)
        except ValueError:
            pass
        for p in self.pkgs:
            sys.modules.pop(p, None)
        importlib.invalidate_caches()
        shutil.rmtree(self.root, ignore_errors=True)


def make_loader(kind, lid, world, kit, calls):
    """world: name -> (text, stamp) (absent = deleted), mutated by the harness."""
    from jinja2 import DictLoader, FileSystemLoader, FunctionLoader, PackageLoader

    mapping = None
    if kind == "dict":
        mapping = {n: v[0] for n, v in world.items()}
        ld = DictLoader(mapping)
    elif kind == "func":
        ld = FunctionLoader(lambda name: world[name][0] if name in world else None)
    elif kind == "funcup":
        def load(name):
            cur = world.get(name)
            if cur is None:
                return None
            return cur[0], None, (lambda: world.get(name) == cur)
        ld = FunctionLoader(load)
    elif kind in PKG_KINDS:
        ld = PackageLoader(kit.pkgs[lid], "templates")
    elif kind in FS_KINDS:
        ld = FileSystemLoader(kit.dirs[lid])
    else:
        raise AssertionError(kind)
    orig = ld.get_source

    def get_source(environment, template):
        calls.append(template)
        return orig(environment, template)

    ld.get_source = get_source  # harness-side probe on the instance
    return ld, mapping


def sizeclass(size):
    return "n" if size > 0 else str(size)


def kindtag(kind):
    if kind in PKG_KINDS:
        return f"package:mtime={FS_KINDS[kind]}"
    return f"fs:mtime={FS_KINDS[kind]}" if kind in FS_KINDS else kind


def observe_cache(env, loaders):
    """(len, [(loader id, name), ...] in the order keys() gives | None) or None
    when the environment has no cache object.  The key layout is discovered
    generically: a tuple holding the template name (a str) and the loader or a
    weak reference to it."""
    cache = getattr(env, "cache", None)
    if cache is None:
        return None
    try:
        n = len(cache)
    except TypeError:
        return None
    try:
        raw = list(cache.keys())
    except Exception:  # noqa: BLE001
        return n, None
    out = []
    for k in raw:
        if not isinstance(k, tuple):
            return n, None
        name = next((x for x in k if isinstance(x, str)), None)
        lid = None
        for x in k:
            if isinstance(x, str):
                continue
            tgt = x() if isinstance(x, weakref.ref) else x
            for i, ld in enumerate(loaders):
                if tgt is ld:
                    lid = i
        if name is None or lid is None:
            return n, None
        out.append((lid, name))
    return n, out


def run_history(kit, kind, size, ar, hist, stats=None, bcc="none"):
    """Execute one history.  Returns None or (key, what)."""
    from jinja2 import Environment, TemplateNotFound

    calls = []
    worlds = [{n: (text_of(lid, n, 0), 0) for n in NAMES} for lid in (0, 1)]
    vers = [{n: 0 for n in NAMES} for _ in (0, 1)]
    fs = kind in FS_KINDS
    tree = kit.tree_of(kind)
    if fs:
        kit.reset(tree, FS_KINDS[kind])
    loaders, mappings = [], []
    for lid in (0, 1):
        ld, mp = make_loader(kind, lid, worlds[lid], kit, calls)
        loaders.append(ld)
        mappings.append(mp)
    bc = kit.bytecode_cache(bcc, kind, loaders)
    del calls[:]
    env = Environment(loader=loaders[0], cache_size=size, auto_reload=ar, bytecode_cache=bc)
    from_bc = set()    # idents of templates whose code came out of the bytecode cache
    cfg = M.Cfg(size, ar, has_check=(kind != "func"), binding_stamp=(kind == "funcup"))
    states = {()}
    seen = {}      # id(template) -> ident
    keep = []      # keeps templates alive so ids stay unique
    active = 0
    stamp = 0
    tag = f"{kindtag(kind)}:auto_reload={'on' if ar else 'off'}:size={sizeclass(size)}"
    if bc is not None:
        tag += f":bytecode_cache={bcc}"

    def setsrc(lid, name, val):
        w = worlds[lid]
        if val is None:
            w.pop(name, None)
        else:
            w[name] = val
        if kind == "dict":
            if val is None:
                mappings[lid].pop(name, None)
            else:
                mappings[lid][name] = val[0]
        elif fs:
            kit.put(tree, lid, name, val)

    for step, op in enumerate(hist):
        c = op[0]
        if c == "w":
            active = 1 - active
            env.loader = loaders[active]
            continue
        if c in "mdn":
            name = op[1]
            present = name in worlds[active]
            if c == "m" and present:
                stamp += 1
                vers[active][name] ^= 1
                setsrc(active, name, (text_of(active, name, vers[active][name]), stamp))
            elif c == "d" and present:
                setsrc(active, name, None)
            elif c == "n" and not present:
                stamp += 1
                vers[active][name] = 0
                setsrc(active, name, (text_of(active, name, 0), stamp))
            continue
        names = tuple(op[1:])
        del calls[:]
        new_ident = len(keep)
        hits0 = bc.hits if bc is not None else 0
        try:
            if c == "g":
                t = env.get_template(names[0])
            else:
                t = env.select_template(list(names))
        except TemplateNotFound:
            res = M.NF
        except Exception as e:
            return (f"exception:{type(e).__name__}:{tag}",
                    f"step {step} {op}: {type(e).__name__}: {e}")
        else:
            ident = seen.get(id(t))
            if ident is None:
                ident = len(keep)
                seen[id(t)] = ident
                keep.append(t)
            try:
                text = t.render()
            except Exception as e:
                return (f"render-exception:{type(e).__name__}:{tag}",
                        f"step {step} {op}: render raised {type(e).__name__}: {e}")
            res = ("ok", ident, text)
            if bc is not None and ident == new_ident and bc.hits > hits0:
                from_bc.add(ident)
        if bc is not None and stats is not None:
            stats["bytecode_hits"] += bc.hits - hits0
            # the lookup concerns a cached template that was built from cached
            # bytecode and whose source has changed / gone since
            if size != 0 and any(
                    (e := M._find(s, (active, n))) is not None and e[0] in from_bc
                    and worlds[active].get(n) != (e[1], e[2])
                    for n in names for s in states):
                stats["lookup_of_changed_bytecode_loaded"] += 1
        obs = (tuple(calls), res)
        pred = []
        for s in sorted(states):
            pred.extend(M.op_outcomes(s, cfg, active, names, worlds[active], new_ident))
        nxt = {s2 for l, r, s2 in pred if (l, r) == obs}
        if stats is not None:
            stats["lookups"] += 1
            stats["loader_calls"] += len(calls)
            if res == M.NF:
                stats["notfound"] += 1
            elif not calls:
                stats["served_from_cache"] += 1
            if calls and any(M._find(s, (active, calls[-1])) is not None for s in states):
                stats["reload_of_cached"] += 1
            if calls and res != M.NF and size > 0 and \
                    any(len(s) >= size and M._find(s, (active, calls[-1])) is None for s in states):
                stats["evicting_loads"] += 1
            if len(nxt) > 1:
                stats["ambiguous_model_states"] += 1
            if res != M.NF and res[2] == "":
                stats["empty_template_served"] += 1
            if size != 0 and any(n not in worlds[active] and M._find(s, (active, n)) is not None
                                 for n in names for s in states):
                stats["lookup_of_deleted_cached"] += 1
                if kind in PKG_KINDS and ar:
                    stats["pkg_reload_check_on_deleted_file"] += 1
            if calls and res != M.NF and size >= 2:
                k = (active, calls[-1])
                if any(len(s) == size and M._find(s, k) is not None for s in states):
                    stats["reload_in_full_cache"] += 1
            if fs and calls and res != M.NF:
                cur = worlds[active].get(calls[-1])
                for s in states:
                    e = M._find(s, (active, calls[-1]))
                    if e is not None and cur is not None and \
                            mtime_of(FS_KINDS[kind], cur[1]) < mtime_of(FS_KINDS[kind], e[2]):
                        stats["fs_reload_mtime_backwards"] += 1
                        break
        if not nxt:
            return classify(obs, pred, tag, step, op, hist, worlds[active], names)
        states = nxt
        if size == 0:
            continue
        # what the cache holds now: number of templates, and which (loader, name)
        # pairs -- must be what some surviving model state holds
        oc = observe_cache(env, loaders)
        if oc is None:
            if stats is not None:
                stats["cache_unobservable"] += 1
            continue
        n, keys = oc
        if size > 0 and n > size:
            return (f"capacity-exceeded:{tag}",
                    f"history {list(hist)} step {step} {op}: len(env.cache)={n} > cache_size={size}")
        model_lens = sorted({len(s) for s in states})
        nxt = {s for s in states if len(s) == n}
        if not nxt:
            return (f"cache-length:{'fewer' if n < model_lens[0] else 'more'}-than-the-loaded-templates:{tag}",
                    f"history {list(hist)} step {step} {op}: len(env.cache)={n}, keys {keys}; the "
                    f"templates loaded and not yet evicted number {model_lens}: "
                    f"{[[k for k, _ in s] for s in sorted(states)][:3]}")
        states = nxt
        if stats is not None:
            stats["cache_len_checks"] += 1
        if keys is None:
            if stats is not None:
                stats["cache_keys_unreadable"] += 1
            continue
        if len(keys) != n or len(set(keys)) != len(keys):
            return (f"cache-keys:duplicate-or-miscounted:{tag}",
                    f"history {list(hist)} step {step} {op}: env.cache.keys() gives {keys} but "
                    f"len(env.cache)={n}")
        nxt = {s for s in states if sorted(k for k, _ in s) == sorted(keys)}
        if not nxt:
            return (f"cache-content:{tag}",
                    f"history {list(hist)} step {step} {op}: env.cache holds {sorted(keys)}; the model "
                    f"(LRU eviction, only when room is needed) holds "
                    f"{[sorted(k for k, _ in s) for s in sorted(states)][:3]}")
        states = nxt
        if stats is not None:
            stats["cache_content_checks"] += 1
        if size > 0:
            # LRUCache.keys() is documented as "ordered by most recent usage"
            mru_first = list(keys)
            nxt = {s for s in states if [k for k, _ in reversed(s)] == mru_first}
            if not nxt:
                return (f"cache-order:{tag}",
                        f"history {list(hist)} step {step} {op}: env.cache.keys() (most recently used "
                        f"first) = {mru_first}; model recency order "
                        f"{[[k for k, _ in reversed(s)] for s in sorted(states)][:3]}")
            states = nxt
            if stats is not None:
                stats["cache_order_checks"] += 1
    return None


def classify(obs, pred, tag, step, op, hist, world, names):
    loads, res = obs
    pl = sorted({p[0] for p in pred})
    pr = sorted({(p[0], p[1]) for p in pred})
    what = (f"history {list(hist)} step {step} op {op}: observed loader calls {list(loads)} result "
            f"{res}; model allows {pr[:6]}; current sources {dict(world)}")
    if all(len(loads) < len(l) for l in pl):
        kind = "served-without-required-load"
    elif all(len(loads) > len(l) for l in pl):
        if any(l and loads[:len(l)] == l for l in pl):
            # the lookup went on to further names although the model's lookup ends
            # with a template found under an earlier one
            kind = "select-skipped-a-template-the-loader-has"
        else:
            kind = "load-where-cached-copy-required"
    elif loads not in pl:
        kind = "loader-call-sequence"
    else:
        same = [p for p in pred if p[0] == loads]
        if res == M.NF or all(p[1] == M.NF for p in same):
            kind = "notfound-mismatch"
        elif all(p[1] != M.NF and p[1][2] != res[2] for p in same if p[1] != M.NF):
            kind = "wrong-text"
        else:
            kind = "identity"
    return (f"{kind}:{tag}", what)


MIRROR = {"ga": "gb", "gb": "ga", "gc": "gc", "sab": "sba", "sba": "sab", "ma": "mb", "mb": "ma",
          "da": "db", "db": "da", "na": "nb", "nb": "na", "w": "w"}


def has_noop(hist):
    """True if some mutation of the history does nothing at all (add of an
    existing name, delete/modify of a deleted one): the execution is then
    identical to that of the shorter history without it, which is enumerated
    anyway."""
    present = [{"a": True, "b": True}, {"a": True, "b": True}]
    act = 0
    for op in hist:
        c = op[0]
        if c == "w":
            act = 1 - act
        elif c == "n":
            if present[act][op[1]]:
                return True
            present[act][op[1]] = True
        elif c == "d":
            if not present[act][op[1]]:
                return True
            present[act][op[1]] = False
        elif c == "m":
            if not present[act][op[1]]:
                return True
    return False


def histories(maxlen):
    idx = 0
    for length in range(1, maxlen + 1):
        for prefix in itertools.product(OPS, repeat=length - 1):
            for last in GET_OPS:
                idx += 1
                yield idx, prefix + (last,)


STAT_KEYS = ("lookups", "loader_calls", "notfound", "served_from_cache", "reload_of_cached",
             "evicting_loads", "ambiguous_model_states", "cache_unobservable", "cache_len_checks",
             "cache_keys_unreadable", "cache_content_checks", "cache_order_checks",
             "reload_in_full_cache", "fs_reload_mtime_backwards", "empty_template_served",
             "lookup_of_deleted_cached", "pkg_reload_check_on_deleted_file",
             "bytecode_hits", "lookup_of_changed_bytecode_loaded")


def random_history(rng, length):
    """A history of the given length without do-nothing mutations, ending in a
    lookup; mutations and lookups of the same name are favoured so that reloads
    of cached templates in a full cache actually happen."""
    while True:
        hist = []
        for i in range(length):
            if i == length - 1 or rng.random() < 0.6:
                hist.append(rng.choice(GET_OPS[:3]) if rng.random() < 0.75 else rng.choice(GET_OPS))
            else:
                hist.append(rng.choice(MUT_OPS[:2]) if rng.random() < 0.5 else rng.choice(MUT_OPS))
        hist = tuple(hist)
        if not has_noop(hist):
            return hist


def exec_all(ctx, kit, stats, hist, kinds, sizes, part, off_kinds=None, rot=0, bcc_every=0,
             bcc_modes=("cold", "warm")):
    """Run one history for every (loader kind, cache size, auto_reload);
    auto_reload off only for off_kinds when given.  bcc_every = k > 0: every
    k-th (kind, size, auto_reload) combination -- rotating with ``rot`` from
    history to history -- is executed a second time with a bytecode cache
    configured, the modes rotating too."""
    has_swap = "w" in hist
    changes = any(o[0] in "mn" for o in hist)
    n = 0
    combo = rot
    for kind in kinds:
        if kind in FS_KINDS and FS_KINDS[kind] != "up" and not changes:
            continue        # no source is (re)written: the mtime direction cannot matter
        for size in sizes:
            for ar in (True, False):
                if has_swap and not ar:
                    continue
                if not ar and kind in FS_KINDS and FS_KINDS[kind] != "up":
                    continue    # nothing is ever reloaded: identical to the "up" execution
                if not ar and off_kinds is not None and kind not in off_kinds:
                    continue
                if not ar and kind in PKG_KINDS and part == "exhaustive":
                    continue    # budget: auto_reload off on a package only in the long histories
                combo += 1
                modes = ["none"]
                if bcc_every and combo % bcc_every == 0:
                    modes.append(bcc_modes[(combo // bcc_every) % len(bcc_modes)])
                for bcc in modes:
                    bad = run_history(kit, kind, size, ar, hist, stats, bcc)
                    n += 1
                    ctx.ev()
                    ctx.count("exec_" + kind)
                    if bcc != "none":
                        ctx.count("exec_bcc_" + bcc)
                    if size == 3:
                        ctx.count("exec_size3")
                    if bad:
                        ctx.violation(bad[0], bad[1],
                                      {"kind": kind, "size": size, "auto_reload": ar,
                                       "hist": list(hist), "part": part, "bcc": bcc})
    return n


def part_long(ctx, kit, stats, quick):
    """Random longer histories (beyond the exhaustive length bound) on every
    loader kind incl. the three mtime directions and on cache sizes 0,1,2,3,-1."""
    rng = ctx.rng("long")
    n = 32 if quick else 800
    lo, hi = (5, 9) if quick else (6, 12)
    for i in range(n):
        hist = random_history(rng, rng.randint(lo, hi))
        # bounded sizes always; 0 and unbounded alternately (the exhaustive part has them)
        exec_all(ctx, kit, stats, hist, LONG_KINDS, (1, 2, 3, (0, -1)[i % 2]), "long",
                 off_kinds=("dict", "fs", "pkg"), rot=i, bcc_every=2,
                 bcc_modes=("cold", "warm", "fswarm"))
        ctx.count("long_histories")
        ctx.dist(hist)
        if i < 2 and ctx.shard == 0:
            ctx.sample({"kind": "fsdn", "size": 3, "auto_reload": True, "hist": list(hist)})
        if i >= 10 and ctx.out_of_time():
            ctx.count("long_timeboxed")
            break


def run(ctx):
    quick = ctx.tier == "quick"
    kit = Kit()
    stats = {k: 0 for k in STAT_KEYS}
    try:
        part_long(ctx, kit, stats, quick)
        xk = KINDS + ("fsdn",)        # pkgdn only in the random long histories
        if quick:
            plan = [(xk, 1, 4)]
        else:
            plan = [(xk, 1, 5), (("dict",), 6, 6)]
        complete = True
        nexec = 0
        nhist = 0
        for kinds, lo, hi in plan:
            if not complete:
                break
            for idx, hist in histories(hi):
                if len(hist) < lo or not ctx.mine(idx):
                    continue
                if has_noop(hist):
                    continue
                if len(hist) >= 6 and tuple(MIRROR[o] for o in hist) < hist:
                    continue        # a<->b renaming of an enumerated history
                nexec += exec_all(ctx, kit, stats, hist, kinds,
                                  SIZES_LONG if len(hist) >= 5 else SIZES, "exhaustive",
                                  rot=idx, bcc_every=10)
                if 2 <= len(hist) <= 5:
                    ctx.dist(hist)
                elif len(hist) == 6:
                    ctx.count("histories_len6")
                if idx % 40 == 0 and ctx.shard == 0:
                    ctx.sample({"kind": "dict", "size": 1, "auto_reload": True, "hist": list(hist)})
                nhist += 1
                if nhist % 12 == 0 and ctx.out_of_time():
                    complete = False
                    ctx.count("enumeration_cut")
                    break
        for k, v in stats.items():
            ctx.count(k, v)
        if complete:
            ctx.exhaustive = True
        else:
            ctx.inconc("time box hit before the enumeration finished")
    finally:
        kit.close()


def replay(ctx, case):
    kit = Kit()
    try:
        bad = run_history(kit, case["kind"], case["size"], case["auto_reload"],
                          tuple(case["hist"]), bcc=case.get("bcc", "none"))
        if bad:
            ctx.violation(bad[0], bad[1], case)
    finally:
        kit.close()
