"""C25 — the template cache serves the current source, is LRU-bounded, and a
size-0 cache recompiles: exhaustive operation histories on real loaders,
monitored against a nondeterministic reference cache model."""
from __future__ import annotations

import itertools
import os
import shutil
import tempfile

from vt.model import c25_tplcache as M

PID = "C25"
LEVEL = "exploration"
TECHNIQUE = "reference-model monitor (state-set tracking) over exhaustively enumerated operation histories"
RULE = ("every history of length<=L (quick 4; thorough 6 for DictLoader, 5 for the others) over the "
        "alphabet {get a|b|c, select [a,b]|[b,a], modify a|b (toggle between 2 source versions), "
        "delete a|b, add a|b, swap env.loader to a second loader of the same kind (auto_reload "
        "only)} whose last op is a get/select (a trailing mutation is unobservable) and that "
        "contain no mutation that does nothing (add of an existing / delete or modify of a deleted "
        "name: identical to the shorter history); length-6 histories only up to renaming a<->b; "
        "executed for "
        "cache_size in {0,1,2,-1} x auto_reload in {on,off} x {DictLoader, FunctionLoader returning "
        "str, FunctionLoader returning (src,None,uptodate), FileSystemLoader on a temp dir with "
        "os.utime-forced unique mtimes}; per lookup the harness observes the names passed to "
        "loader.get_source (instance wrapper), returned template identity, render text / "
        "TemplateNotFound and len(env.cache); accepted iff some state of the reference model "
        "predicts exactly that. distinct = distinct op sequences of length 2..5 (length-6 ones are "
        "only counted, see histories_len6)")
LEVEL_TEXT = ("held on every enumerated (history, cache size, auto_reload, loader) execution up to the "
              "stated length bound; nothing is claimed for longer histories, more than 3 names or "
              "concurrent use")
ASSUMPTIONS = [
    "single-threaded use of the environment; at most 3 template names, 2 source versions per name, 2 loaders",
    "FileSystemLoader change detection is exercised only through distinct whole-second mtimes set with os.utime",
    "where the documentation is silent (same text rewritten; stale entry after a failed reload) either behaviour is accepted",
    "swapping env.loader is only enumerated with auto_reload on (the documentation does not say what a "
    "non-reloading environment does after its loader attribute is replaced)",
]
NSHARDS = {"quick": 16, "thorough": 16}
BUDGET_S = {"quick": 90, "thorough": 1200}
FLOORS = {
    "quick": {"evaluations": 36000, "distinct": 1300,
              "counters": {"lookups": 90000, "loader_calls": 80000, "served_from_cache": 16000,
                           "reload_of_cached": 750, "notfound": 5000, "evicting_loads": 9500,
                           "exec_dict": 9000, "exec_func": 9000, "exec_funcup": 9000,
                           "exec_fs": 9000}},
    "thorough": {"evaluations": 650000, "distinct": 12000,
                 "counters": {"lookups": 1700000, "loader_calls": 1400000,
                              "served_from_cache": 280000, "reload_of_cached": 13000,
                              "notfound": 90000, "evicting_loads": 170000,
                              "exec_dict": 400000, "exec_func": 80000, "exec_funcup": 80000,
                              "exec_fs": 80000, "histories_len6": 50000}},
}

NAMES = ("a", "b", "c")
GET_OPS = ("ga", "gb", "gc", "sab", "sba")
MUT_OPS = ("ma", "mb", "da", "db", "na", "nb", "w")
OPS = GET_OPS + MUT_OPS
KINDS = ("dict", "func", "funcup", "fs")
SIZES = (0, 1, 2, -1)
MT_BASE = 1_000_000_000


def text_of(lid, name, ver):
    return f"{name}{lid}v{ver}"


def scratch_dir(prefix):
    """tempfile.mkdtemp, on tmpfs when there is one (the disk under /tmp is slow and shared)."""
    shm = "/dev/shm"
    base = shm if os.path.isdir(shm) and os.access(shm, os.W_OK | os.X_OK) else None
    return tempfile.mkdtemp(prefix=prefix, dir=base)


class Kit:
    """Per-shard scratch: two directories for the FileSystemLoader worlds."""

    def __init__(self):
        self.root = scratch_dir("vt_c25_")
        self.dirs = [os.path.join(self.root, "w0"), os.path.join(self.root, "w1")]
        for d in self.dirs:
            os.mkdir(d)
        self.disk = [dict(), dict()]  # what is on disk: name -> (text, stamp) | absent

    def put(self, lid, name, val):
        p = os.path.join(self.dirs[lid], name)
        if val is None:
            if name in self.disk[lid]:
                os.remove(p)
                del self.disk[lid][name]
            return
        with open(p, "w", encoding="utf-8") as f:
            f.write(val[0])
        t = MT_BASE + 10 * val[1]
        os.utime(p, (t, t))
        self.disk[lid][name] = val

    def reset(self):
        for lid in (0, 1):
            for n in NAMES:
                want = (text_of(lid, n, 0), 0)
                if self.disk[lid].get(n) != want:
                    self.put(lid, n, want)

    def close(self):
        shutil.rmtree(self.root, ignore_errors=True)


def make_loader(kind, lid, world, kit, calls):
    """world: name -> (text, stamp) (absent = deleted), mutated by the harness."""
    from jinja2 import DictLoader, FileSystemLoader, FunctionLoader

    mapping = None
    if kind == "dict":
        mapping = {n: v[0] for n, v in world.items()}
        ld = DictLoader(mapping)
    elif kind == "func":
        ld = FunctionLoader(lambda name: world[name][0] if name in world else None)
    elif kind == "funcup":
        def load(name):
            cur = world.get(name)
            if cur is None:
                return None
            return cur[0], None, (lambda: world.get(name) == cur)
        ld = FunctionLoader(load)
    elif kind == "fs":
        ld = FileSystemLoader(kit.dirs[lid])
    else:
        raise AssertionError(kind)
    orig = ld.get_source

    def get_source(environment, template):
        calls.append(template)
        return orig(environment, template)

    ld.get_source = get_source  # harness-side probe on the instance
    return ld, mapping


def sizeclass(size):
    return "n" if size > 0 else str(size)


def run_history(kit, kind, size, ar, hist, stats=None):
    """Execute one history.  Returns None or (key, what)."""
    from jinja2 import Environment, TemplateNotFound

    calls = []
    worlds = [{n: (text_of(lid, n, 0), 0) for n in NAMES} for lid in (0, 1)]
    vers = [{n: 0 for n in NAMES} for _ in (0, 1)]
    if kind == "fs":
        kit.reset()
    loaders, mappings = [], []
    for lid in (0, 1):
        ld, mp = make_loader(kind, lid, worlds[lid], kit, calls)
        loaders.append(ld)
        mappings.append(mp)
    env = Environment(loader=loaders[0], cache_size=size, auto_reload=ar)
    cfg = M.Cfg(size, ar, has_check=(kind != "func"), binding_stamp=(kind == "funcup"))
    states = {()}
    seen = {}      # id(template) -> ident
    keep = []      # keeps templates alive so ids stay unique
    active = 0
    stamp = 0
    tag = f"{kind}:auto_reload={'on' if ar else 'off'}:size={sizeclass(size)}"

    def setsrc(lid, name, val):
        w = worlds[lid]
        if val is None:
            w.pop(name, None)
        else:
            w[name] = val
        if kind == "dict":
            if val is None:
                mappings[lid].pop(name, None)
            else:
                mappings[lid][name] = val[0]
        elif kind == "fs":
            kit.put(lid, name, val)

    for step, op in enumerate(hist):
        c = op[0]
        if c == "w":
            active = 1 - active
            env.loader = loaders[active]
            continue
        if c in "mdn":
            name = op[1]
            present = name in worlds[active]
            if c == "m" and present:
                stamp += 1
                vers[active][name] ^= 1
                setsrc(active, name, (text_of(active, name, vers[active][name]), stamp))
            elif c == "d" and present:
                setsrc(active, name, None)
            elif c == "n" and not present:
                stamp += 1
                vers[active][name] = 0
                setsrc(active, name, (text_of(active, name, 0), stamp))
            continue
        names = tuple(op[1:])
        del calls[:]
        new_ident = len(keep)
        try:
            if c == "g":
                t = env.get_template(names[0])
            else:
                t = env.select_template(list(names))
        except TemplateNotFound:
            res = M.NF
        except Exception as e:
            return (f"exception:{type(e).__name__}:{tag}",
                    f"step {step} {op}: {type(e).__name__}: {e}")
        else:
            ident = seen.get(id(t))
            if ident is None:
                ident = len(keep)
                seen[id(t)] = ident
                keep.append(t)
            try:
                text = t.render()
            except Exception as e:
                return (f"render-exception:{type(e).__name__}:{tag}",
                        f"step {step} {op}: render raised {type(e).__name__}: {e}")
            res = ("ok", ident, text)
        obs = (tuple(calls), res)
        pred = []
        for s in sorted(states):
            pred.extend(M.op_outcomes(s, cfg, active, names, worlds[active], new_ident))
        nxt = {s2 for l, r, s2 in pred if (l, r) == obs}
        if stats is not None:
            stats["lookups"] += 1
            stats["loader_calls"] += len(calls)
            if res == M.NF:
                stats["notfound"] += 1
            elif not calls:
                stats["served_from_cache"] += 1
            if calls and any(M._find(s, (active, calls[-1])) is not None for s in states):
                stats["reload_of_cached"] += 1
            if calls and res != M.NF and size > 0 and \
                    any(len(s) >= size and M._find(s, (active, calls[-1])) is None for s in states):
                stats["evicting_loads"] += 1
            if len(nxt) > 1:
                stats["ambiguous_model_states"] += 1
        if not nxt:
            return classify(obs, pred, tag, step, op, hist, worlds[active], names)
        states = nxt
        cache = getattr(env, "cache", None)
        if cache is not None and size >= 0:
            try:
                n = len(cache)
            except TypeError:
                n = None
            if n is not None and n > size:
                return (f"capacity-exceeded:{tag}",
                        f"step {step} {op}: len(env.cache)={n} > cache_size={size}")
    return None


def classify(obs, pred, tag, step, op, hist, world, names):
    loads, res = obs
    pl = sorted({p[0] for p in pred})
    pr = sorted({(p[0], p[1]) for p in pred})
    what = (f"history {list(hist)} step {step} op {op}: observed loader calls {list(loads)} result "
            f"{res}; model allows {pr[:6]}; current sources {dict(world)}")
    if all(len(loads) < len(l) for l in pl):
        kind = "served-without-required-load"
    elif all(len(loads) > len(l) for l in pl):
        kind = "load-where-cached-copy-required"
    elif loads not in pl:
        kind = "loader-call-sequence"
    else:
        same = [p for p in pred if p[0] == loads]
        if res == M.NF or all(p[1] == M.NF for p in same):
            kind = "notfound-mismatch"
        elif all(p[1] != M.NF and p[1][2] != res[2] for p in same if p[1] != M.NF):
            kind = "wrong-text"
        else:
            kind = "identity"
    return (f"{kind}:{tag}", what)


MIRROR = {"ga": "gb", "gb": "ga", "gc": "gc", "sab": "sba", "sba": "sab", "ma": "mb", "mb": "ma",
          "da": "db", "db": "da", "na": "nb", "nb": "na", "w": "w"}


def has_noop(hist):
    """True if some mutation of the history does nothing at all (add of an
    existing name, delete/modify of a deleted one): the execution is then
    identical to that of the shorter history without it, which is enumerated
    anyway."""
    present = [{"a": True, "b": True}, {"a": True, "b": True}]
    act = 0
    for op in hist:
        c = op[0]
        if c == "w":
            act = 1 - act
        elif c == "n":
            if present[act][op[1]]:
                return True
            present[act][op[1]] = True
        elif c == "d":
            if not present[act][op[1]]:
                return True
            present[act][op[1]] = False
        elif c == "m":
            if not present[act][op[1]]:
                return True
    return False


def histories(maxlen):
    idx = 0
    for length in range(1, maxlen + 1):
        for prefix in itertools.product(OPS, repeat=length - 1):
            for last in GET_OPS:
                idx += 1
                yield idx, prefix + (last,)


def run(ctx):
    quick = ctx.tier == "quick"
    kit = Kit()
    stats = {k: 0 for k in ("lookups", "loader_calls", "notfound", "served_from_cache",
                            "reload_of_cached", "evicting_loads", "ambiguous_model_states")}
    try:
        if quick:
            plan = [(KINDS, 1, 4)]
        else:
            plan = [(KINDS, 1, 5), (("dict",), 6, 6)]
        complete = True
        nexec = 0
        for kinds, lo, hi in plan:
            if not complete:
                break
            for idx, hist in histories(hi):
                if len(hist) < lo or not ctx.mine(idx):
                    continue
                if has_noop(hist):
                    continue
                if len(hist) >= 6 and tuple(MIRROR[o] for o in hist) < hist:
                    continue        # a<->b renaming of an enumerated history
                has_swap = "w" in hist
                for kind in kinds:
                    for size in SIZES:
                        for ar in (True, False):
                            if has_swap and not ar:
                                continue
                            bad = run_history(kit, kind, size, ar, hist, stats)
                            nexec += 1
                            ctx.ev()
                            ctx.count("exec_" + kind)
                            if bad:
                                ctx.violation(bad[0], bad[1],
                                              {"kind": kind, "size": size, "auto_reload": ar,
                                               "hist": list(hist)})
                if 2 <= len(hist) <= 5:
                    ctx.dist(hist)
                elif len(hist) == 6:
                    ctx.count("histories_len6")
                if idx % 40 == 0 and ctx.shard == 0:
                    ctx.sample({"kind": "dict", "size": 1, "auto_reload": True, "hist": list(hist)})
                if nexec % 512 < 32 and ctx.out_of_time():
                    complete = False
                    ctx.count("enumeration_cut")
                    break
        for k, v in stats.items():
            ctx.count(k, v)
        if complete:
            ctx.exhaustive = True
        else:
            ctx.inconc("time box hit before the enumeration finished")
    finally:
        kit.close()


def replay(ctx, case):
    kit = Kit()
    try:
        bad = run_history(kit, case["kind"], case["size"], case["auto_reload"],
                          tuple(case["hist"]))
        if bad:
            ctx.violation(bad[0], bad[1], case)
    finally:
        kit.close()
