"""C25 — the template cache serves the current source, is LRU-bounded, and a
size-0 cache recompiles: exhaustive operation histories on real loaders,
monitored against a nondeterministic reference cache model."""
from __future__ import annotations

import importlib
import itertools
import os
import shutil
import sys
import tempfile
import weakref

from vt.model import c25_tplcache as M

PID = "C25"
LEVEL = "exploration"
TECHNIQUE = "reference-model monitor (state-set tracking) over exhaustively enumerated operation histories"
RULE = ("(1) every history of length<=L (quick 4; thorough 6 for DictLoader, 5 for the others) over the "
        "alphabet {get a|b|c, select [a,b]|[b,a], modify a|b (toggle between 2 source versions), "
        "delete a|b, add a|b, swap env.loader to a second loader of the same kind (auto_reload "
        "only)} whose last op is a get/select (a trailing mutation is unobservable) and that "
        "contain no mutation that does nothing (add of an existing / delete or modify of a deleted "
        "name: identical to the shorter history); length-6 histories only up to renaming a<->b; "
        "executed for "
        "cache_size in {0,1,2,-1} (and 3 for length>=5: a shorter history cannot fill 3 slots) x "
        "auto_reload in {on,off} x {DictLoader, FunctionLoader returning "
        "str, FunctionLoader returning (src,None,uptodate), FileSystemLoader on a temp dir with "
        "os.utime-forced unique mtimes that move UP with every source change, PackageLoader on a "
        "directory package created in a scratch directory on sys.path (same forced mtimes; "
        "exhaustive part with auto_reload on only), and (auto_reload on, "
        "histories that write a file) FileSystemLoader with mtimes that move DOWN with every change "
        "/ re-creation}; one source version of one name per loader is the EMPTY template; any "
        "exception other than TemplateNotFound out of get_template/select_template is a violation "
        "on every loader kind; (2) per shard 32 (thorough 800) random histories of length 5..9 (6..12) over "
        "the same alphabet on cache sizes {1,2,3} + alternately 0 / -1 (auto_reload off only for "
        "DictLoader and FileSystemLoader) and additionally FileSystemLoader with "
        "zigzag mtimes (alternately above/below the initial one) and PackageLoader with mtimes moving "
        "up and down; (3) bytecode caches (the template cache must behave the same whether the code "
        "of a template was compiled or came out of a bytecode cache): every 10th (loader, cache size, "
        "auto_reload) execution of the enumerated histories and every 2nd of the long ones -- the "
        "choice rotating from history to history -- is repeated with Environment(bytecode_cache=...) "
        "in one of the modes cold (empty in-memory BytecodeCache subclass of the harness: hits after "
        "LRU eviction / after a source went back to an earlier version), warm (the same cache already "
        "holding the code of every source version of every name, stored through get_bucket/set_bucket "
        "by ANOTHER environment: the restarted-process / shared-cache situation, every load is a hit) "
        "and, long histories only, fswarm (FileSystemBytecodeCache directory filled the same way and "
        "shared by all environments of the shard); the reference model is the same as without a "
        "bytecode cache. (4) the application using the public cache object itself between the loads "
        "(pre-warming, inspection, invalidation; env.cache is the LRU mapping of capacity cache_size "
        "keyed by (weak reference to the loader, name), a dict when unbounded): every history of "
        "length<=3 (thorough 4) over {get a|b|c, modify a, delete a, env.cache.setdefault(key, "
        "template loaded by the application through loader.load) a|b|c, env.cache[key] = template "
        "a|b|c, env.cache.get(key) a|b, env.cache[key] a|b, del env.cache[key] a|b, key in env.cache, "
        "env.cache.clear(), env.cache.copy() (the copy must equal the cache, keep its capacity under "
        "inserts of its own and not be noticed by the original), iteration (keys() / iter / "
        "reversed / items() / values() must agree and show the cached templates)} that contains a "
        "direct cache use, on cache sizes 1, 2 (every third history also unbounded; length 4: one "
        "of 1, 2, 3, rotating), loader kind and auto_reload rotating from history to history; plus "
        "per shard 8 (thorough 100) random histories of length 5..9 (6..12), about half of the steps direct "
        "cache uses, on every loader kind / mtime direction / bytecode-cache mode of (2) and sizes "
        "1, 2, 3, unbounded. The reference model treats get / [] / setdefault of a present key as a "
        "use (most recently used afterwards), []= and setdefault of an absent key as an insert that "
        "cleans out the least recently used entry only when a new key meets a full cache, and "
        "accepts either for `in`; returned objects must be the cached templates, KeyError exactly "
        "for absent keys; a template put there by the application is served, reloaded and evicted "
        "like one the environment loaded. Per lookup the harness observes the names passed to "
        "loader.get_source (instance wrapper), returned template identity, render text / "
        "TemplateNotFound, and after the lookup len(env.cache) and the (loader, name) pairs in "
        "env.cache.keys() (for a bounded cache also their order, documented as most recently used "
        "first) -- the same after every direct cache use; accepted iff some state of the reference model "
        "predicts exactly that (so: no stale serve, no needless reload of a valid cached template, "
        "eviction only when room is needed and only of the least recently used entry, no lost or "
        "duplicate entry). (5) how the environment under test came to be: every 12th (loader, cache "
        "size, auto_reload) execution of the enumerated histories, every 5th of the long ones and "
        "every 6th of the cache-API ones is repeated on an environment DERIVED with the documented "
        "Environment.overlay (shares everything with the original except the cache and the overridden "
        "attributes), the way of derivation rotating: overlay() of an environment that has loaded "
        "nothing yet / of one that has templates cached / of an overlay; overlay(cache_size=n) of an "
        "environment with another cache size; overlay(auto_reload=x) of one with the opposite "
        "setting; overlay(loader=...) of one with the other loader -- the reference model is the "
        "same (empty cache of the inherited or overridden size and auto_reload setting), and after "
        "the history the cache of the environment the overlay came from must hold what it held "
        "before. distinct = distinct op sequences of length 2..5 (length-6 ones are "
        "only counted, see histories_len6) + distinct random long histories + distinct cache-API "
        "histories of length>=2")
LEVEL_TEXT = ("held on every enumerated (history, cache size, auto_reload, loader) execution up to the "
              "stated length bound, incl. the histories in which the application uses env.cache "
              "directly and a rotating share executed on Environment.overlay-derived environments; nothing is claimed for longer histories, more than 3 names or concurrent use")
ASSUMPTIONS = [
    "single-threaded use of the environment; at most 3 template names, 2 source versions per name, 2 loaders",
    "FileSystemLoader change detection is exercised only through distinct whole-second mtimes set with "
    "os.utime (increasing, decreasing and alternating around the initial mtime); a rewrite that keeps "
    "the very same mtime is not generated (the loader cannot see it)",
    "cache content is read through env.cache (len, keys()); keys are taken to be tuples holding the "
    "template name and the loader or a weak reference to it -- if that layout changes the content "
    "checks stop (counter cache_keys_unreadable) and the floor on cache_content_checks turns the run "
    "INCONCLUSIVE",
    "direct cache use: the key under which the environment files a template is discovered from a probe "
    "environment (2-tuple of name and loader / weak reference); templates the application inserts are "
    "loaded with the documented loader.load(env, name, globals) from the CURRENT source of that name "
    "(an insert for a name the loader does not have is skipped); the value stored under a key is always "
    "a template of that key's name and loader; whether `key in cache` counts as a use is left open; "
    "items() / values() are compared as sets, only keys() / iter / reversed have a documented order",
    "PackageLoader only on a regular directory package (the zip variant supplies no up-to-date check)",
    "where the documentation is silent (same text rewritten; stale entry after a failed reload) either behaviour is accepted",
    "bytecode caches: an in-memory BytecodeCache subclass and FileSystemBytecodeCache, both counting "
    "loads that came back with code; a bytecode cache is expected to be invisible in everything the "
    "check observes (loader calls, template identity, text, cache content); memcached is not used",
    "overlay environments: an overlay made without cache_size is taken to have an empty cache of the "
    "parent's size (the documentation says it shares all data except the cache and the overridden "
    "attributes); overlays are created once, before the history starts",
    "swapping env.loader is only enumerated with auto_reload on (the documentation does not say what a "
    "non-reloading environment does after its loader attribute is replaced)",
]
NSHARDS = {"quick": 16, "thorough": 16}
BUDGET_S = {"quick": 120, "thorough": 1200}
FLOORS = {
    "quick": {"evaluations": 36000, "distinct": 1300,
              "counters": {"lookups": 90000, "loader_calls": 80000, "served_from_cache": 16000,
                           "reload_of_cached": 750, "notfound": 5000, "evicting_loads": 9500,
                           "exec_dict": 9000, "exec_func": 9000, "exec_funcup": 9000,
                           "exec_fs": 9000, "exec_fsdn": 3000, "exec_fszz": 400, "exec_size3": 900,
                           "exec_pkg": 6000, "exec_pkgdn": 400, "empty_template_served": 10000,
                           "lookup_of_deleted_cached": 2400,
                           "pkg_reload_check_on_deleted_file": 280,
                           "long_histories": 128, "cache_len_checks": 90000,
                           "cache_content_checks": 90000, "cache_order_checks": 60000,
                           "reload_in_full_cache": 270, "fs_reload_mtime_backwards": 300,
                           "exec_bcc_cold": 3500, "exec_bcc_warm": 3500, "exec_bcc_fswarm": 800,
                           "bytecode_hits": 4500, "lookup_of_changed_bytecode_loaded": 160,
                           "cache_api_ops": 19000, "cacheapi_histories": 2300,
                           "exec_cacheapi": 7000, "long_cacheapi_histories": 32,
                           "cacheop_clear": 950, "cacheop_contains_hit": 200, "cacheop_copy": 950,
                           "cacheop_delitem_hit": 380, "cacheop_get_hit": 450,
                           "cacheop_getitem_hit": 350, "cacheop_hit_must_refresh_recency": 300,
                           "cacheop_insert_new_key_into_full_cache": 1100, "cacheop_iterate": 1000,
                           "cacheop_setdefault_hit": 900, "cacheop_setdefault_miss": 3400,
                           "cacheop_setdefault_miss_on_full_cache": 550, "cacheop_setitem": 4300,
                           "lookup_served_template_put_by_application": 900,
                           "exec_overlay": 5500, "exec_ov_cold": 900, "exec_ov_warm": 900,
                           "exec_ov_size": 900, "exec_ov_ar": 900, "exec_ov_loader": 900,
                           "exec_ov_chain": 900, "overlay_lookups": 15000,
                           "overlay_served_from_cache": 3400,
                           "overlay_parent_cache_untouched_checks": 5500}},
    "thorough": {"evaluations": 650000, "distinct": 12000,
                 "counters": {"lookups": 1700000, "loader_calls": 1400000,
                              "served_from_cache": 280000, "reload_of_cached": 13000,
                              "notfound": 90000, "evicting_loads": 170000,
                              "exec_dict": 400000, "exec_func": 80000, "exec_funcup": 80000,
                              "exec_fs": 80000, "histories_len6": 50000, "exec_fsdn": 49000,
                              "exec_pkg": 80000, "exec_pkgdn": 11000,
                              "empty_template_served": 330000, "lookup_of_deleted_cached": 130000,
                              "pkg_reload_check_on_deleted_file": 7500,
                              "exec_fszz": 11000, "exec_size3": 190000, "long_histories": 3200,
                              "cache_len_checks": 2800000, "cache_content_checks": 2800000,
                              "cache_order_checks": 2200000, "reload_in_full_cache": 17000,
                              "fs_reload_mtime_backwards": 9800,
                              "exec_bcc_cold": 80000, "exec_bcc_warm": 80000,
                              "exec_bcc_fswarm": 21000, "bytecode_hits": 145000,
                              "lookup_of_changed_bytecode_loaded": 7500,
                              "cache_api_ops": 190000, "cacheapi_histories": 23000,
                              "exec_cacheapi": 70000, "long_cacheapi_histories": 320,
                              "cacheop_clear": 9500, "cacheop_contains_hit": 2000,
                              "cacheop_copy": 9500, "cacheop_delitem_hit": 3800,
                              "cacheop_get_hit": 4500, "cacheop_getitem_hit": 3500,
                              "cacheop_hit_must_refresh_recency": 3000,
                              "cacheop_insert_new_key_into_full_cache": 11000,
                              "cacheop_iterate": 10000, "cacheop_setdefault_hit": 9000,
                              "cacheop_setdefault_miss": 34000,
                              "cacheop_setdefault_miss_on_full_cache": 5500,
                              "cacheop_setitem": 43000,
                              "lookup_served_template_put_by_application": 9000,
                              "exec_overlay": 55000, "exec_ov_cold": 9000, "exec_ov_warm": 9000,
                              "exec_ov_size": 9000, "exec_ov_ar": 9000, "exec_ov_loader": 9000,
                              "exec_ov_chain": 9000, "overlay_lookups": 150000,
                              "overlay_served_from_cache": 40000,
                              "overlay_parent_cache_untouched_checks": 55000}},
}

NAMES = ("a", "b", "c")
GET_OPS = ("ga", "gb", "gc", "sab", "sba")
MUT_OPS = ("ma", "mb", "da", "db", "na", "nb", "w")
OPS = GET_OPS + MUT_OPS
KINDS = ("dict", "func", "funcup", "fs", "pkg")
SIZES = (0, 1, 2, -1)
SIZES_LONG = (0, 1, 2, 3, -1)        # histories of length >= 5 can fill a 3-slot cache
# loaders reading real files -> direction in which the forced mtimes move;
# pkg* = PackageLoader on a directory package (importable from a scratch
# directory put on sys.path), templates below <package>/templates
FS_KINDS = {"fs": "up", "fsdn": "down", "fszz": "zigzag", "pkg": "up", "pkgdn": "down"}
PKG_KINDS = ("pkg", "pkgdn")
LONG_KINDS = ("dict", "func", "funcup", "fs", "fsdn", "fszz", "pkg", "pkgdn")
MT_BASE = 1_000_000_000


def mtime_of(mode, stamp):
    """Forced modification time of the stamp-th source change (stamp 0 = initial
    file).  up: every change is newer than all before; down: every change is
    OLDER than all before (rollback, cp -p, archive extraction, re-creation with
    an old timestamp); zigzag: alternately above and below the initial time.
    Always unique per stamp, whole seconds."""
    if mode == "up":
        off = stamp
    elif mode == "down":
        off = -stamp
    else:
        off = stamp if stamp % 2 else -stamp
    return MT_BASE + 10 * off


def text_of(lid, name, ver):
    """Source of version ``ver`` of ``name`` in loader ``lid``.  Two of them are
    the EMPTY template (a template that exists and renders ''): the second
    version of 'b' in the first loader and 'c' in the second one."""
    if (lid, name, ver) in ((0, "b", 1), (1, "c", 0)):
        return ""
    return f"{name}{lid}v{ver}"


def scratch_dir(prefix):
    """tempfile.mkdtemp, on tmpfs when there is one (the disk under /tmp is slow and shared)."""
    shm = "/dev/shm"
    base = shm if os.path.isdir(shm) and os.access(shm, os.W_OK | os.X_OK) else None
    return tempfile.mkdtemp(prefix=prefix, dir=base)


BCC_MODES = ("none", "cold", "warm", "fswarm")
_BCC_CLASSES = {}


def bcc_classes():
    """Harness-side bytecode caches (documented extension point: subclass
    BytecodeCache with load_bytecode / dump_bytecode) that count how often a
    bucket came back WITH code, i.e. a template was built without compiling."""
    if _BCC_CLASSES:
        return _BCC_CLASSES
    from jinja2 import BytecodeCache, FileSystemBytecodeCache

    class MemoryBytecodeCache(BytecodeCache):
        def __init__(self, data=None):
            self.data = dict(data or {})
            self.hits = 0

        def load_bytecode(self, bucket):
            raw = self.data.get(bucket.key)
            if raw is not None:
                bucket.bytecode_from_string(raw)
                if bucket.code is not None:
                    self.hits += 1

        def dump_bytecode(self, bucket):
            self.data[bucket.key] = bucket.bytecode_to_string()

    class CountingFSBytecodeCache(FileSystemBytecodeCache):
        hits = 0

        def load_bytecode(self, bucket):
            super().load_bytecode(bucket)
            if bucket.code is not None:
                self.hits += 1

    _BCC_CLASSES["mem"] = MemoryBytecodeCache
    _BCC_CLASSES["fs"] = CountingFSBytecodeCache
    return _BCC_CLASSES


def warm_up(bcc, loaders):
    """What another environment / an earlier process sharing the bytecode cache
    leaves behind: the code of every source version of every name, stored
    through the documented get_bucket / set_bucket interface under the file
    name the loader reports."""
    from jinja2 import Environment

    env = Environment()
    for lid, ld in enumerate(loaders):
        for n in NAMES:
            filename = ld.get_source(env, n)[1]
            for ver in (0, 1):
                src = text_of(lid, n, ver)
                bucket = bcc.get_bucket(env, n, filename, src)
                if bucket.code is None:
                    bucket.code = env.compile(src, n, filename)
                    bcc.set_bucket(bucket)


class Kit:
    """Per-shard scratch: two directories for the FileSystemLoader worlds and two
    importable directory packages for the PackageLoader worlds."""

    def __init__(self):
        self.root = scratch_dir("vt_c25_")
        self.trees = {"fs": [os.path.join(self.root, "w0"), os.path.join(self.root, "w1")]}
        for d in self.trees["fs"]:
            os.mkdir(d)
        self.dirs = self.trees["fs"]
        # package names must be unique per process and per Kit
        uniq = os.path.basename(self.root).replace("-", "_")
        self.pkgroot = os.path.join(self.root, "site")
        os.mkdir(self.pkgroot)
        self.pkgs = [f"c25pkg_{uniq}_{lid}" for lid in (0, 1)]
        self.trees["pkg"] = []
        for p in self.pkgs:
            d = os.path.join(self.pkgroot, p)
            os.makedirs(os.path.join(d, "templates"))
            with open(os.path.join(d, "__init__.py"), "w", encoding="utf-8") as f:
                f.write("")
            self.trees["pkg"].append(os.path.join(d, "templates"))
        sys.path.insert(0, self.pkgroot)
        importlib.invalidate_caches()
        # what is on disk: tree -> [name -> (text, stamp) | absent] per loader id
        self.disk = {t: [dict(), dict()] for t in self.trees}
        self.mode = {t: "up" for t in self.trees}
        # bytecode caches: pre-filled in-memory data per file-name space, and
        # one persistent FileSystemBytecodeCache directory per file-name space
        self.warm_data = {}
        self.bcdirs = {}

    def bytecode_cache(self, mode, kind, loaders):
        """none | cold: empty in-memory bytecode cache | warm: in-memory cache
        already holding the code of every source version (filled by another
        environment) | fswarm: FileSystemBytecodeCache on a directory that
        outlives the environments of this shard and is filled the same way."""
        if mode == "none":
            return None
        cls = bcc_classes()
        if mode == "cold":
            return cls["mem"]()
        space = kind if kind in ("dict", "func", "funcup") else self.tree_of(kind)
        if mode == "warm":
            if space not in self.warm_data:
                b = cls["mem"]()
                warm_up(b, loaders)
                self.warm_data[space] = b.data
            return cls["mem"](self.warm_data[space])
        if mode == "fswarm":
            d = self.bcdirs.get(space)
            if d is None:
                d = self.bcdirs[space] = os.path.join(self.root, "bc_" + space)
                os.mkdir(d)
                warm_up(cls["fs"](d), loaders)
            return cls["fs"](d)
        raise AssertionError(mode)

    @staticmethod
    def tree_of(kind):
        return "pkg" if kind in PKG_KINDS else "fs"

    def put(self, tree, lid, name, val):
        p = os.path.join(self.trees[tree][lid], name)
        disk = self.disk[tree][lid]
        if val is None:
            if name in disk:
                os.remove(p)
                del disk[name]
            return
        with open(p, "w", encoding="utf-8") as f:
            f.write(val[0])
        t = mtime_of(self.mode[tree], val[1])
        os.utime(p, (t, t))
        disk[name] = val

    def reset(self, tree, mode="up"):
        self.mode[tree] = mode        # stamp 0 has the same mtime in every mode
        for lid in (0, 1):
            for n in NAMES:
                want = (text_of(lid, n, 0), 0)
                if self.disk[tree][lid].get(n) != want:
                    self.put(tree, lid, n, want)

    def close(self):
        try:
            sys.path.remove(self.pkgroot)
        except ValueError:
            pass
        for p in self.pkgs:
            sys.modules.pop(p, None)
        importlib.invalidate_caches()
        shutil.rmtree(self.root, ignore_errors=True)


def make_loader(kind, lid, world, kit, calls):
    """world: name -> (text, stamp) (absent = deleted), mutated by the harness."""
    from jinja2 import DictLoader, FileSystemLoader, FunctionLoader, PackageLoader

    mapping = None
    if kind == "dict":
        mapping = {n: v[0] for n, v in world.items()}
        ld = DictLoader(mapping)
    elif kind == "func":
        ld = FunctionLoader(lambda name: world[name][0] if name in world else None)
    elif kind == "funcup":
        def load(name):
            cur = world.get(name)
            if cur is None:
                return None
            return cur[0], None, (lambda: world.get(name) == cur)
        ld = FunctionLoader(load)
    elif kind in PKG_KINDS:
        ld = PackageLoader(kit.pkgs[lid], "templates")
    elif kind in FS_KINDS:
        ld = FileSystemLoader(kit.dirs[lid])
    else:
        raise AssertionError(kind)
    orig = ld.get_source

    def get_source(environment, template):
        calls.append(template)
        return orig(environment, template)

    ld.get_source = get_source  # harness-side probe on the instance
    return ld, mapping


def sizeclass(size):
    return "n" if size > 0 else str(size)


def kindtag(kind):
    if kind in PKG_KINDS:
        return f"package:mtime={FS_KINDS[kind]}"
    return f"fs:mtime={FS_KINDS[kind]}" if kind in FS_KINDS else kind


def observe_cache(env, loaders):
    """(len, [(loader id, name), ...] in the order keys() gives | None) or None
    when the environment has no cache object.  The key layout is discovered
    generically: a tuple holding the template name (a str) and the loader or a
    weak reference to it."""
    cache = getattr(env, "cache", None)
    if cache is None:
        return None
    try:
        n = len(cache)
    except TypeError:
        return None
    try:
        raw = list(cache.keys())
    except Exception:  # noqa: BLE001
        return n, None
    out = []
    for k in raw:
        ok = observe_key(k, loaders)
        if ok is None:
            return n, None
        out.append(ok)
    return n, out


def observe_key(k, loaders):
    """(loader id, name) of one cache key or None when it cannot be read."""
    if not isinstance(k, tuple):
        return None
    name = next((x for x in k if isinstance(x, str)), None)
    lid = None
    for x in k:
        if isinstance(x, str):
            continue
        tgt = x() if isinstance(x, weakref.ref) else x
        for i, ld in enumerate(loaders):
            if tgt is ld:
                lid = i
    if name is None or lid is None:
        return None
    return (lid, name)


_KEY_MAKER = []


def key_maker():
    """How an application addresses a template in env.cache: discovered from
    the key an environment itself files a template under (a 2-tuple of the
    template name and the loader or a weak reference to it).  None when the
    layout cannot be read (the cache-API histories are then skipped and their
    floors turn the run INCONCLUSIVE)."""
    if _KEY_MAKER:
        return _KEY_MAKER[0]
    from jinja2 import DictLoader, Environment

    mk = None
    try:
        ld = DictLoader({"probe": ""})
        env = Environment(loader=ld, cache_size=2)
        env.get_template("probe")
        (k,) = list(env.cache.keys())
        if isinstance(k, tuple) and len(k) == 2:
            ni = [i for i, x in enumerate(k) if x == "probe"]
            li = [i for i, x in enumerate(k) if x is ld or (isinstance(x, weakref.ref) and x() is ld)]
            if len(ni) == 1 and len(li) == 1 and ni != li:
                as_ref = isinstance(k[li[0]], weakref.ref)
                name_first = ni[0] == 0

                def mk(loader, name):
                    lk = weakref.ref(loader) if as_ref else loader
                    return (name, lk) if name_first else (lk, name)
    except Exception:  # noqa: BLE001
        mk = None
    _KEY_MAKER.append(mk)
    return mk


# how the environment under test came to be: constructed directly or derived
# from another environment with the documented Environment.overlay (an overlay
# "shares all the data with the current environment except for cache and the
# overridden attributes": its own, initially empty cache, configured like the
# parent's unless cache_size is overridden)
DERIVS = ("ov_cold", "ov_warm", "ov_size", "ov_ar", "ov_loader", "ov_chain")
DERIV_TAG = {"ov_cold": "overlay()-of-env-that-loaded-nothing",
             "ov_warm": "overlay()-of-env-with-cached-templates",
             "ov_size": "overlay(cache_size)-of-env-with-other-cache-size",
             "ov_ar": "overlay(auto_reload)-of-env-with-opposite-setting",
             "ov_loader": "overlay(loader)-of-env-with-other-loader",
             "ov_chain": "overlay()-of-an-overlay"}
OTHER_SIZE = {0: 2, 1: -1, 2: 1, 3: 0, -1: 3}


def derive_env(deriv, loaders, size, ar, bc):
    """(environment under test, the environment it was derived from).  The
    environment under test is always meant to have loader 0, cache size
    ``size`` and auto_reload ``ar`` -- by inheritance or by override."""
    from jinja2 import Environment

    def warm(e):
        for n in ("a", "c"):
            e.get_template(n).render()

    if deriv == "ov_cold":
        parent = Environment(loader=loaders[0], cache_size=size, auto_reload=ar, bytecode_cache=bc)
        return parent.overlay(), parent
    if deriv == "ov_warm":
        parent = Environment(loader=loaders[0], cache_size=size, auto_reload=ar, bytecode_cache=bc)
        warm(parent)
        return parent.overlay(), parent
    if deriv == "ov_size":
        parent = Environment(loader=loaders[0], cache_size=OTHER_SIZE[size], auto_reload=ar,
                             bytecode_cache=bc)
        warm(parent)
        return parent.overlay(cache_size=size), parent
    if deriv == "ov_ar":
        parent = Environment(loader=loaders[0], cache_size=size, auto_reload=not ar,
                             bytecode_cache=bc)
        return parent.overlay(auto_reload=ar), parent
    if deriv == "ov_loader":
        parent = Environment(loader=loaders[1], cache_size=size, auto_reload=ar, bytecode_cache=bc)
        warm(parent)
        return parent.overlay(loader=loaders[0]), parent
    if deriv == "ov_chain":
        root = Environment(loader=loaders[0], cache_size=size, auto_reload=ar, bytecode_cache=bc)
        mid = root.overlay()
        warm(mid)
        return mid.overlay(), mid
    raise AssertionError(deriv)


def run_history(kit, kind, size, ar, hist, stats=None, bcc="none", deriv="direct"):
    """Execute one history.  Returns None or (key, what)."""
    from jinja2 import Environment, TemplateNotFound

    calls = []
    worlds = [{n: (text_of(lid, n, 0), 0) for n in NAMES} for lid in (0, 1)]
    vers = [{n: 0 for n in NAMES} for _ in (0, 1)]
    fs = kind in FS_KINDS
    tree = kit.tree_of(kind)
    if fs:
        kit.reset(tree, FS_KINDS[kind])
    loaders, mappings = [], []
    for lid in (0, 1):
        ld, mp = make_loader(kind, lid, worlds[lid], kit, calls)
        loaders.append(ld)
        mappings.append(mp)
    bc = kit.bytecode_cache(bcc, kind, loaders)
    parent = parent_before = None
    if deriv == "direct":
        env = Environment(loader=loaders[0], cache_size=size, auto_reload=ar, bytecode_cache=bc)
    else:
        try:
            env, parent = derive_env(deriv, loaders, size, ar, bc)
        except Exception as e:  # noqa: BLE001
            return (f"exception:{type(e).__name__}:creating:{DERIV_TAG[deriv]}",
                    f"{kindtag(kind)} size {size} auto_reload {ar}: {type(e).__name__}: {e}")
        parent_before = observe_cache(parent, loaders)
    del calls[:]
    from_bc = set()    # idents of templates whose code came out of the bytecode cache
    cfg = M.Cfg(size, ar, has_check=(kind != "func"), binding_stamp=(kind == "funcup"))
    states = {()}
    seen = {}      # id(template) -> ident
    keep = []      # keeps templates alive so ids stay unique
    active = 0
    stamp = 0
    harness_made = set()   # idents of templates the harness loaded and put into the cache itself
    make_key = key_maker() if any(o[0] == "c" for o in hist) else None
    tag = f"{kindtag(kind)}:auto_reload={'on' if ar else 'off'}:size={sizeclass(size)}"
    if bc is not None:
        tag += f":bytecode_cache={bcc}"
    if deriv != "direct":
        tag += f":env={DERIV_TAG[deriv]}"

    def setsrc(lid, name, val):
        w = worlds[lid]
        if val is None:
            w.pop(name, None)
        else:
            w[name] = val
        if kind == "dict":
            if val is None:
                mappings[lid].pop(name, None)
            else:
                mappings[lid][name] = val[0]
        elif fs:
            kit.put(tree, lid, name, val)

    def check_cache(step, op, via):
        """What the cache holds now: number of templates, which (loader, name)
        pairs and, for a bounded cache, in which order -- must be what some
        surviving model state holds.  Narrows ``states``."""
        nonlocal states
        if size == 0:
            return None
        oc = observe_cache(env, loaders)
        if oc is None:
            if stats is not None:
                stats["cache_unobservable"] += 1
            return None
        n, keys = oc
        if size > 0 and n > size:
            return (f"capacity-exceeded:{tag}{via}",
                    f"history {list(hist)} step {step} {op}: len(env.cache)={n} > cache_size={size}")
        model_lens = sorted({len(s) for s in states})
        nxt = {s for s in states if len(s) == n}
        if not nxt:
            return (f"cache-length:{'fewer' if n < model_lens[0] else 'more'}-than-the-loaded-templates:{tag}{via}",
                    f"history {list(hist)} step {step} {op}: len(env.cache)={n}, keys {keys}; the "
                    f"templates loaded and not yet evicted number {model_lens}: "
                    f"{[[k for k, _ in s] for s in sorted(states)][:3]}")
        states = nxt
        if stats is not None:
            stats["cache_len_checks"] += 1
        if keys is None:
            if stats is not None:
                stats["cache_keys_unreadable"] += 1
            return None
        if len(keys) != n or len(set(keys)) != len(keys):
            return (f"cache-keys:duplicate-or-miscounted:{tag}{via}",
                    f"history {list(hist)} step {step} {op}: env.cache.keys() gives {keys} but "
                    f"len(env.cache)={n}")
        nxt = {s for s in states if sorted(k for k, _ in s) == sorted(keys)}
        if not nxt:
            return (f"cache-content:{tag}{via}",
                    f"history {list(hist)} step {step} {op}: env.cache holds {sorted(keys)}; the model "
                    f"(LRU eviction, only when room is needed) holds "
                    f"{[sorted(k for k, _ in s) for s in sorted(states)][:3]}")
        states = nxt
        if stats is not None:
            stats["cache_content_checks"] += 1
        if size > 0:
            # LRUCache.keys() is documented as "ordered by most recent usage"
            mru_first = list(keys)
            nxt = {s for s in states if [k for k, _ in reversed(s)] == mru_first}
            if not nxt:
                return (f"cache-order:{tag}{via}",
                        f"history {list(hist)} step {step} {op}: env.cache.keys() (most recently used "
                        f"first) = {mru_first}; model recency order "
                        f"{[[k for k, _ in reversed(s)] for s in sorted(states)][:3]}")
            states = nxt
            if stats is not None:
                stats["cache_order_checks"] += 1
        return None

    def ident_of(t):
        ident = seen.get(id(t))
        if ident is None:
            ident = len(keep)
            seen[id(t)] = ident
            keep.append(t)
        return ident

    def cache_op(step, op):
        """One direct use of the public cache object by the application."""
        nonlocal states
        code = op[1]
        opname = CACHE_OP_NAMES[code]
        via = f":after=cache.{opname}"
        cache = env.cache
        if stats is not None:
            stats["cache_api_ops"] += 1
        if code in "YL":
            bad = inspect_cache(cache, step, op, opname)
            return bad or check_cache(step, op, via)
        name = op[2:] or None
        key = M_key = None
        ent = None
        tmpl = None
        if name is not None:
            key = make_key(loaders[active], name)
            M_key = (active, name)
        if code in "SP":
            # the application loads the template itself (documented BaseLoader.load)
            try:
                tmpl = loaders[active].load(env, name, env.make_globals(None))
            except TemplateNotFound:
                if stats is not None:
                    stats["cacheop_skipped_no_source"] += 1
                return None
            except Exception as e:
                return (f"exception:{type(e).__name__}:loader.load:{tag}",
                        f"step {step} {op}: loader.load raised {type(e).__name__}: {e}")
            cur = worlds[active][name]
            ent = (ident_of(tmpl), cur[0], cur[1])
            harness_made.add(ent[0])
        try:
            if code == "S":
                r = cache.setdefault(key, tmpl)
                res = ("val", seen.get(id(r), -1))
            elif code == "G":
                r = cache.get(key)
                res = ("none",) if r is None else ("val", seen.get(id(r), -1))
            elif code == "I":
                r = cache[key]
                res = ("val", seen.get(id(r), -1))
            elif code == "P":
                cache[key] = tmpl
                res = ("done",)
            elif code == "D":
                del cache[key]
                res = ("done",)
            elif code == "N":
                res = ("bool", key in cache)
            elif code == "C":
                cache.clear()
                res = ("done",)
            else:
                raise AssertionError(op)
        except KeyError:
            res = ("keyerror",)
        except Exception as e:
            return (f"cache-api:{opname}:raises:{type(e).__name__}:{tag}",
                    f"history {list(hist)} step {step} {op}: env.cache.{opname} raised "
                    f"{type(e).__name__}: {e}")
        pred = []
        for s in sorted(states):
            pred.extend(M.cache_op_outcomes(s, cfg, opname, M_key, ent))
        nxt = {s2 for r2, s2 in pred if r2 == res}
        if stats is not None:
            hit = any(M._find(s, M_key) is not None for s in states) if M_key else False
            full = size > 0 and any(len(s) >= size for s in states)
            stats[f"cacheop_{opname}" + ("" if code in "PC" else "_hit" if hit else "_miss")] += 1
            if code in "SP" and not hit and full:
                stats["cacheop_insert_new_key_into_full_cache"] += 1
                if code == "S":
                    stats["cacheop_setdefault_miss_on_full_cache"] += 1
            if code in "SGI" and hit and size >= 2 and \
                    any(len(s) >= 2 and s[-1][0] != M_key for s in states):
                stats["cacheop_hit_must_refresh_recency"] += 1
        if not nxt:
            allowed = sorted({r2 for r2, _ in pred})
            return (f"cache-api:{opname}:wrong-result:{tag}",
                    f"history {list(hist)} step {step} {op}: env.cache.{opname} gave {res}; the "
                    f"templates cached at that moment allow {allowed[:4]}")
        states = nxt
        return check_cache(step, op, via)

    def inspect_cache(cache, step, op, opname):
        """copy() and iteration: what they show must be the cache content, and
        they must leave the cache alone; a copy is a cache of the same kind and
        capacity that lives its own life."""
        try:
            keys = list(cache.keys())
            if op[1] == "L":
                rd = lambda k: observe_key(k, loaders)  # noqa: E731
                okeys = [rd(k) for k in keys]
                it = [rd(k) for k in iter(cache)]
                items = [(rd(k), seen.get(id(v), -1)) for k, v in cache.items()]
                values = [seen.get(id(v), -1) for v in cache.values()]
                rev = [rd(k) for k in reversed(cache)]
                if None in okeys:
                    if stats is not None:
                        stats["cache_keys_unreadable"] += 1
                    return None
                if it != okeys or rev != okeys[::-1]:
                    return (f"cache-api:iteration:order-disagrees-with-keys:{tag}",
                            f"history {list(hist)} step {step}: keys() {okeys} iter {it} reversed {rev}")
                if sorted(k for k, _ in items) != sorted(okeys) or \
                        sorted(v for _, v in items) != sorted(values) or len(cache) != len(okeys):
                    return (f"cache-api:iteration:items-values-disagree-with-keys:{tag}",
                            f"history {list(hist)} step {step}: keys() {okeys} items {items} "
                            f"values {values} len {len(cache)}")
                got = sorted(items)
                ok = any(sorted((k, e[0]) for k, e in s) == got for s in states)
                if not ok:
                    return (f"cache-api:iteration:items-are-not-the-cached-templates:{tag}",
                            f"history {list(hist)} step {step}: items() gives (key, template) "
                            f"{got}; cached are {[[(k, e[0]) for k, e in s] for s in sorted(states)][:3]}")
                if stats is not None:
                    stats["cacheop_iterate"] += 1
                return None
            cp = cache.copy()
            if stats is not None:
                stats["cacheop_copy"] += 1
            if cp is cache or type(cp) is not type(cache) or list(cp.keys()) != keys or \
                    len(cp) != len(cache) or \
                    getattr(cp, "capacity", None) != getattr(cache, "capacity", None):
                return (f"cache-api:copy:not-an-equal-cache:{tag}",
                        f"history {list(hist)} step {step}: copy() of "
                        f"{[observe_key(k, loaders) for k in keys]} (capacity "
                        f"{getattr(cache, 'capacity', None)}) gave {type(cp).__name__} "
                        f"{[observe_key(k, loaders) for k in cp.keys()]} (capacity "
                        f"{getattr(cp, 'capacity', None)})")
            # the copy is used on its own: the original must not notice (checked by the
            # caller), and the copy stays within the capacity
            for i in range(max(size, 1) + 1):
                cp.setdefault(("copy-only", i), i)
                cp[("copy-only", -i - 1)] = i
                if size > 0 and len(cp) > size:
                    return (f"capacity-exceeded:{tag}:copy-of-the-cache",
                            f"history {list(hist)} step {step}: a copy() of env.cache holds "
                            f"{len(cp)} items after inserts, capacity {size}")
            cp.clear()
            return None
        except Exception as e:
            return (f"cache-api:{opname}:raises:{type(e).__name__}:{tag}",
                    f"history {list(hist)} step {step} {op}: {type(e).__name__}: {e}")

    for step, op in enumerate(hist):
        c = op[0]
        if c == "c":
            if size == 0 or make_key is None:
                continue
            bad = cache_op(step, op)
            if bad:
                return bad
            continue
        if c == "w":
            active = 1 - active
            env.loader = loaders[active]
            continue
        if c in "mdn":
            name = op[1]
            present = name in worlds[active]
            if c == "m" and present:
                stamp += 1
                vers[active][name] ^= 1
                setsrc(active, name, (text_of(active, name, vers[active][name]), stamp))
            elif c == "d" and present:
                setsrc(active, name, None)
            elif c == "n" and not present:
                stamp += 1
                vers[active][name] = 0
                setsrc(active, name, (text_of(active, name, 0), stamp))
            continue
        names = tuple(op[1:])
        del calls[:]
        new_ident = len(keep)
        hits0 = bc.hits if bc is not None else 0
        try:
            if c == "g":
                t = env.get_template(names[0])
            else:
                t = env.select_template(list(names))
        except TemplateNotFound:
            res = M.NF
        except Exception as e:
            return (f"exception:{type(e).__name__}:{tag}",
                    f"step {step} {op}: {type(e).__name__}: {e}")
        else:
            ident = ident_of(t)
            try:
                text = t.render()
            except Exception as e:
                return (f"render-exception:{type(e).__name__}:{tag}",
                        f"step {step} {op}: render raised {type(e).__name__}: {e}")
            res = ("ok", ident, text)
            if bc is not None and ident == new_ident and bc.hits > hits0:
                from_bc.add(ident)
        if bc is not None and stats is not None:
            stats["bytecode_hits"] += bc.hits - hits0
            # the lookup concerns a cached template that was built from cached
            # bytecode and whose source has changed / gone since
            if size != 0 and any(
                    (e := M._find(s, (active, n))) is not None and e[0] in from_bc
                    and worlds[active].get(n) != (e[1], e[2])
                    for n in names for s in states):
                stats["lookup_of_changed_bytecode_loaded"] += 1
        obs = (tuple(calls), res)
        pred = []
        for s in sorted(states):
            pred.extend(M.op_outcomes(s, cfg, active, names, worlds[active], new_ident))
        nxt = {s2 for l, r, s2 in pred if (l, r) == obs}
        if stats is not None:
            stats["lookups"] += 1
            stats["loader_calls"] += len(calls)
            if deriv != "direct":
                stats["overlay_lookups"] += 1
                if res != M.NF and not calls:
                    stats["overlay_served_from_cache"] += 1
            if res == M.NF:
                stats["notfound"] += 1
            elif not calls:
                stats["served_from_cache"] += 1
            if calls and any(M._find(s, (active, calls[-1])) is not None for s in states):
                stats["reload_of_cached"] += 1
            if calls and res != M.NF and size > 0 and \
                    any(len(s) >= size and M._find(s, (active, calls[-1])) is None for s in states):
                stats["evicting_loads"] += 1
            if len(nxt) > 1:
                stats["ambiguous_model_states"] += 1
            if res != M.NF and res[2] == "":
                stats["empty_template_served"] += 1
            if size != 0 and any(n not in worlds[active] and M._find(s, (active, n)) is not None
                                 for n in names for s in states):
                stats["lookup_of_deleted_cached"] += 1
                if kind in PKG_KINDS and ar:
                    stats["pkg_reload_check_on_deleted_file"] += 1
            if calls and res != M.NF and size >= 2:
                k = (active, calls[-1])
                if any(len(s) == size and M._find(s, k) is not None for s in states):
                    stats["reload_in_full_cache"] += 1
            if fs and calls and res != M.NF:
                cur = worlds[active].get(calls[-1])
                for s in states:
                    e = M._find(s, (active, calls[-1]))
                    if e is not None and cur is not None and \
                            mtime_of(FS_KINDS[kind], cur[1]) < mtime_of(FS_KINDS[kind], e[2]):
                        stats["fs_reload_mtime_backwards"] += 1
                        break
        if not nxt:
            return classify(obs, pred, tag, step, op, hist, worlds[active], names)
        states = nxt
        if stats is not None and res != M.NF and not calls and res[1] in harness_made:
            stats["lookup_served_template_put_by_application"] += 1
        bad = check_cache(step, op, "")
        if bad:
            return bad
    if parent is not None:
        # the overlay has a cache of its own: the environment it came from must
        # not have noticed any of the loads above
        now = observe_cache(parent, loaders)
        if now != parent_before:
            return (f"overlay:cache-of-the-original-env-changed:{tag}",
                    f"history {list(hist)}: cache of the environment the overlay was made from "
                    f"held {parent_before} before and {now} after the overlay's lookups")
        if stats is not None:
            stats["overlay_parent_cache_untouched_checks"] += 1
    return None


def classify(obs, pred, tag, step, op, hist, world, names):
    loads, res = obs
    pl = sorted({p[0] for p in pred})
    pr = sorted({(p[0], p[1]) for p in pred})
    what = (f"history {list(hist)} step {step} op {op}: observed loader calls {list(loads)} result "
            f"{res}; model allows {pr[:6]}; current sources {dict(world)}")
    if all(len(loads) < len(l) for l in pl):
        kind = "served-without-required-load"
    elif all(len(loads) > len(l) for l in pl):
        if any(l and loads[:len(l)] == l for l in pl):
            # the lookup went on to further names although the model's lookup ends
            # with a template found under an earlier one
            kind = "select-skipped-a-template-the-loader-has"
        else:
            kind = "load-where-cached-copy-required"
    elif loads not in pl:
        kind = "loader-call-sequence"
    else:
        same = [p for p in pred if p[0] == loads]
        if res == M.NF or all(p[1] == M.NF for p in same):
            kind = "notfound-mismatch"
        elif all(p[1] != M.NF and p[1][2] != res[2] for p in same if p[1] != M.NF):
            kind = "wrong-text"
        else:
            kind = "identity"
    return (f"{kind}:{tag}", what)


MIRROR = {"ga": "gb", "gb": "ga", "gc": "gc", "sab": "sba", "sba": "sab", "ma": "mb", "mb": "ma",
          "da": "db", "db": "da", "na": "nb", "nb": "na", "w": "w"}


def has_noop(hist):
    """True if some mutation of the history does nothing at all (add of an
    existing name, delete/modify of a deleted one): the execution is then
    identical to that of the shorter history without it, which is enumerated
    anyway."""
    present = [{"a": True, "b": True}, {"a": True, "b": True}]
    act = 0
    for op in hist:
        c = op[0]
        if c == "w":
            act = 1 - act
        elif c == "n":
            if present[act][op[1]]:
                return True
            present[act][op[1]] = True
        elif c == "d":
            if not present[act][op[1]]:
                return True
            present[act][op[1]] = False
        elif c == "m":
            if not present[act][op[1]]:
                return True
    return False


def histories(maxlen):
    idx = 0
    for length in range(1, maxlen + 1):
        for prefix in itertools.product(OPS, repeat=length - 1):
            for last in GET_OPS:
                idx += 1
                yield idx, prefix + (last,)


CACHE_OP_NAMES = {"S": "setdefault", "G": "get", "I": "getitem", "P": "setitem", "D": "delitem",
                  "N": "contains", "C": "clear", "Y": "copy", "L": "iteration"}
# direct uses of env.cache by the application, mixed into the histories
CACHE_OPS = ("cSa", "cSb", "cSc", "cPa", "cPb", "cPc", "cGa", "cGb", "cIa", "cIb", "cDa", "cDb",
             "cNa", "cC", "cY", "cL")
CA_OPS = ("ga", "gb", "gc", "ma", "da") + CACHE_OPS

STAT_KEYS = ("cache_api_ops", "cacheop_skipped_no_source", "cacheop_setdefault_hit",
             "cacheop_setdefault_miss", "cacheop_get_hit", "cacheop_get_miss",
             "cacheop_getitem_hit", "cacheop_getitem_miss", "cacheop_setitem", "cacheop_delitem_hit",
             "cacheop_delitem_miss", "cacheop_contains_hit", "cacheop_contains_miss",
             "cacheop_clear", "cacheop_copy", "cacheop_iterate",
             "cacheop_insert_new_key_into_full_cache", "cacheop_setdefault_miss_on_full_cache",
             "cacheop_hit_must_refresh_recency", "lookup_served_template_put_by_application",
             "lookups", "loader_calls", "notfound", "served_from_cache", "reload_of_cached",
             "evicting_loads", "ambiguous_model_states", "cache_unobservable", "cache_len_checks",
             "cache_keys_unreadable", "cache_content_checks", "cache_order_checks",
             "reload_in_full_cache", "fs_reload_mtime_backwards", "empty_template_served",
             "lookup_of_deleted_cached", "pkg_reload_check_on_deleted_file",
             "bytecode_hits", "lookup_of_changed_bytecode_loaded",
             "overlay_lookups", "overlay_served_from_cache",
             "overlay_parent_cache_untouched_checks")


def random_history(rng, length):
    """A history of the given length without do-nothing mutations, ending in a
    lookup; mutations and lookups of the same name are favoured so that reloads
    of cached templates in a full cache actually happen."""
    while True:
        hist = []
        for i in range(length):
            if i == length - 1 or rng.random() < 0.6:
                hist.append(rng.choice(GET_OPS[:3]) if rng.random() < 0.75 else rng.choice(GET_OPS))
            else:
                hist.append(rng.choice(MUT_OPS[:2]) if rng.random() < 0.5 else rng.choice(MUT_OPS))
        hist = tuple(hist)
        if not has_noop(hist):
            return hist


def random_cache_history(rng, length):
    """A history of the given length in which about every second step is a
    direct use of env.cache (pre-warming, inspection, invalidation by the
    application), the rest lookups and source changes."""
    while True:
        hist = []
        for i in range(length):
            x = rng.random()
            if x < 0.5:
                hist.append(rng.choice(CACHE_OPS[:6]) if rng.random() < 0.4 else rng.choice(CACHE_OPS))
            elif x < 0.85 or i == length - 1:
                hist.append(rng.choice(GET_OPS[:3]) if rng.random() < 0.75 else rng.choice(GET_OPS))
            else:
                hist.append(rng.choice(MUT_OPS[:2]) if rng.random() < 0.5 else rng.choice(MUT_OPS))
        hist = tuple(hist)
        if not has_noop(hist) and any(o[0] == "c" for o in hist):
            return hist


CA_KINDS = ("dict", "func", "funcup", "fs", "pkg")


def cache_histories(maxlen):
    """Every history of length <= maxlen over CA_OPS that uses env.cache
    directly at least once (a trailing cache operation is observable: the cache
    content is read after every step)."""
    idx = 0
    for length in range(1, maxlen + 1):
        for hist in itertools.product(CA_OPS, repeat=length):
            idx += 1
            if any(o[0] == "c" for o in hist):
                yield idx, hist


def part_cacheapi(ctx, kit, stats, quick):
    """Exhaustive short histories mixing lookups / source changes with direct
    uses of the public cache object; bounded and unbounded caches, the loader
    kind and auto_reload rotating from history to history.  Returns False when
    the time box cut the enumeration."""
    maxlen = 3 if quick else 4
    nhist = 0
    for idx, hist in cache_histories(maxlen):
        if not ctx.mine(idx) or has_noop(hist):
            continue
        # the unbounded cache is a plain dict: every third history only
        # and length-4 histories (thorough) on one of the sizes 1, 2, 3 each
        sizes = ((1, 2, -1) if idx % 3 == 0 else (1, 2)) if len(hist) < 4 else ((1, 2, 3)[idx % 3],)
        for si, size in enumerate(sizes):
            kind = CA_KINDS[(idx + si) % len(CA_KINDS)]
            ar = ((idx // len(CA_KINDS)) + si) % 2 == 0
            derivs = ["direct"]
            if (idx + si) % 6 == 0:
                derivs.append(DERIVS[((idx + si) // 6) % len(DERIVS)])
            for deriv in derivs:
                bad = run_history(kit, kind, size, ar, hist, stats, deriv=deriv)
                ctx.ev()
                ctx.count("exec_" + kind)
                ctx.count("exec_cacheapi")
                if size == 3:
                    ctx.count("exec_size3")
                if deriv != "direct":
                    ctx.count("exec_overlay")
                    ctx.count("exec_" + deriv)
                if bad:
                    ctx.violation(bad[0], bad[1], {"kind": kind, "size": size, "auto_reload": ar,
                                                   "hist": list(hist), "part": "cacheapi",
                                                   "bcc": "none", "deriv": deriv})
        ctx.count("cacheapi_histories")
        if len(hist) >= 2:
            ctx.dist(hist)
        if idx % 400 == 0 and ctx.shard == 0:
            ctx.sample({"kind": "dict", "size": 2, "auto_reload": True, "hist": list(hist)})
        nhist += 1
        if nhist % 25 == 0 and ctx.out_of_time():
            ctx.count("enumeration_cut")
            return False
    return True


def exec_all(ctx, kit, stats, hist, kinds, sizes, part, off_kinds=None, rot=0, bcc_every=0,
             bcc_modes=("cold", "warm"), ov_every=0):
    """Run one history for every (loader kind, cache size, auto_reload);
    auto_reload off only for off_kinds when given.  bcc_every = k > 0: every
    k-th (kind, size, auto_reload) combination -- rotating with ``rot`` from
    history to history -- is executed a second time with a bytecode cache
    configured, the modes rotating too.  ov_every = k > 0: every k-th
    combination is also executed on an environment obtained through
    Environment.overlay (DERIVS rotating), with the bytecode-cache mode chosen
    for that combination, if any."""
    has_swap = "w" in hist
    changes = any(o[0] in "mn" for o in hist)
    n = 0
    combo = rot
    for kind in kinds:
        if kind in FS_KINDS and FS_KINDS[kind] != "up" and not changes:
            continue        # no source is (re)written: the mtime direction cannot matter
        for size in sizes:
            for ar in (True, False):
                if has_swap and not ar:
                    continue
                if not ar and kind in FS_KINDS and FS_KINDS[kind] != "up":
                    continue    # nothing is ever reloaded: identical to the "up" execution
                if not ar and off_kinds is not None and kind not in off_kinds:
                    continue
                if not ar and kind in PKG_KINDS and part == "exhaustive":
                    continue    # budget: auto_reload off on a package only in the long histories
                combo += 1
                modes = ["none"]
                if bcc_every and combo % bcc_every == 0:
                    modes.append(bcc_modes[(combo // bcc_every) % len(bcc_modes)])
                runs = [(bcc, "direct") for bcc in modes]
                if ov_every and combo % ov_every == 0:
                    runs.append((modes[-1], DERIVS[(combo // ov_every) % len(DERIVS)]))
                for bcc, deriv in runs:
                    bad = run_history(kit, kind, size, ar, hist, stats, bcc, deriv)
                    n += 1
                    ctx.ev()
                    ctx.count("exec_" + kind)
                    if bcc != "none":
                        ctx.count("exec_bcc_" + bcc)
                    if size == 3:
                        ctx.count("exec_size3")
                    if deriv != "direct":
                        ctx.count("exec_overlay")
                        ctx.count("exec_" + deriv)
                    if bad:
                        ctx.violation(bad[0], bad[1],
                                      {"kind": kind, "size": size, "auto_reload": ar,
                                       "hist": list(hist), "part": part, "bcc": bcc,
                                       "deriv": deriv})
    return n


def part_long(ctx, kit, stats, quick):
    """Random longer histories (beyond the exhaustive length bound) on every
    loader kind incl. the three mtime directions and on cache sizes 0,1,2,3,-1."""
    rng = ctx.rng("long")
    n = 32 if quick else 800
    lo, hi = (5, 9) if quick else (6, 12)
    for i in range(n):
        hist = random_history(rng, rng.randint(lo, hi))
        # bounded sizes always; 0 and unbounded alternately (the exhaustive part has them)
        exec_all(ctx, kit, stats, hist, LONG_KINDS, (1, 2, 3, (0, -1)[i % 2]), "long",
                 off_kinds=("dict", "fs", "pkg"), rot=i, bcc_every=2,
                 bcc_modes=("cold", "warm", "fswarm"), ov_every=5)
        ctx.count("long_histories")
        ctx.dist(hist)
        if i < 2 and ctx.shard == 0:
            ctx.sample({"kind": "fsdn", "size": 3, "auto_reload": True, "hist": list(hist)})
        if i % (4 if quick else 8) == 0:
            # the same, with the application using env.cache directly in between
            chist = random_cache_history(rng, rng.randint(lo, hi))
            nx = exec_all(ctx, kit, stats, chist, LONG_KINDS, (1, 2, 3, -1), "long",
                          off_kinds=("dict", "fs", "pkg"), rot=i, bcc_every=2,
                          bcc_modes=("cold", "warm", "fswarm"), ov_every=5)
            ctx.count("exec_cacheapi", nx)
            ctx.count("long_cacheapi_histories")
            ctx.dist(chist)
        if i >= 10 and ctx.out_of_time():
            ctx.count("long_timeboxed")
            break


def run(ctx):
    quick = ctx.tier == "quick"
    kit = Kit()
    stats = {k: 0 for k in STAT_KEYS}
    try:
        t0 = ctx.elapsed()
        part_long(ctx, kit, stats, quick)
        ctx.extra["shard_seconds_long"] = round(ctx.elapsed() - t0, 2)
        xk = KINDS + ("fsdn",)        # pkgdn only in the random long histories
        if quick:
            plan = [(xk, 1, 4)]
        else:
            plan = [(xk, 1, 5), (("dict",), 6, 6)]
        t0 = ctx.elapsed()
        complete = part_cacheapi(ctx, kit, stats, quick)
        ctx.extra["shard_seconds_cacheapi"] = round(ctx.elapsed() - t0, 2)
        t0 = ctx.elapsed()
        nexec = 0
        nhist = 0
        for kinds, lo, hi in plan:
            if not complete:
                break
            for idx, hist in histories(hi):
                if len(hist) < lo or not ctx.mine(idx):
                    continue
                if has_noop(hist):
                    continue
                if len(hist) >= 6 and tuple(MIRROR[o] for o in hist) < hist:
                    continue        # a<->b renaming of an enumerated history
                nexec += exec_all(ctx, kit, stats, hist, kinds,
                                  SIZES_LONG if len(hist) >= 5 else SIZES, "exhaustive",
                                  rot=idx, bcc_every=10, ov_every=12)
                if 2 <= len(hist) <= 5:
                    ctx.dist(hist)
                elif len(hist) == 6:
                    ctx.count("histories_len6")
                if idx % 40 == 0 and ctx.shard == 0:
                    ctx.sample({"kind": "dict", "size": 1, "auto_reload": True, "hist": list(hist)})
                nhist += 1
                if nhist % 12 == 0 and ctx.out_of_time():
                    complete = False
                    ctx.count("enumeration_cut")
                    break
        ctx.extra["shard_seconds_enumeration"] = round(ctx.elapsed() - t0, 2)
        for k, v in stats.items():
            ctx.count(k, v)
        if complete:
            ctx.exhaustive = True
        else:
            ctx.inconc("time box hit before the enumeration finished")
    finally:
        kit.close()


def replay(ctx, case):
    kit = Kit()
    try:
        bad = run_history(kit, case["kind"], case["size"], case["auto_reload"],
                          tuple(case["hist"]), bcc=case.get("bcc", "none"),
                          deriv=case.get("deriv", "direct"))
        if bad:
            ctx.violation(bad[0], bad[1], case)
    finally:
        kit.close()
