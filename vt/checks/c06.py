"""C06 — macro argument binding, exhaustive signatures x call shapes."""
from __future__ import annotations

import itertools
import re
import time

from vt import util
from vt.gen import jast
from vt.gen.stmtgen import C, N, F
from vt.model import interp as M

PID = "C06"
LEVEL = "exploration"
TECHNIQUE = "executable binding specification checked over an exhaustively enumerated space of signatures x call shapes (template-side and Python-side)"
RULE = ("all macro signatures with 0-4 parameters, 0-3 trailing defaults (constant / earlier "
        "parameter / outer variable re-assigned between definition and call), every subset of "
        "{varargs,kwargs,caller} mentioned in the body, plus the signatures in which `caller` is "
        "DECLARED as a regular parameter at every position (first / middle / last, with or without "
        "default, read by the body or not), crossed with call shapes: 0-5 positional, "
        "every keyword subset (<=4) of parameter names + an unknown name, *seq, **map, call blocks; "
        "each call rendered inside one compiled template per signature (selected by data) and "
        "called from Python through template.module; compared with the binding rules of the "
        "property statement (vt.model.interp.MMacro). distinct = distinct (signature, call shape) pairs")
LEVEL_TEXT = "exhaustive within the stated bounds (quick: a deterministic 1/3 sample of signatures per seed; thorough: all)"
ASSUMPTIONS = [
    "macro mentioning kwargs but not caller is not invoked through a call block (caller would land in kwargs; undocumented)",
    "keys of a **map never repeat an explicit keyword",
    "a call block never also passes `caller` by keyword/**map (rejected by design), and a macro printing kwargs is not "
    "invoked through a call block when its declared `caller` parameter is already bound positionally",
    "a declared `caller` parameter that the body reads always has a default (the compiler rejects the other form)",
]
NSHARDS = {"quick": 16, "thorough": 16}
BUDGET_S = {"quick": 30, "thorough": 900}
FLOORS = {
    "quick": {"evaluations": 20000, "distinct": 10000,
              "counters": {"template_side": 10000, "python_side": 5000, "expect_typeerror": 2000,
                           "default_used": 2000, "hostile_name_renders": 5000,
                           "explicit_caller_calls": 8000, "explicit_caller_not_last_read": 1400}},
    "thorough": {"evaluations": 150000, "distinct": 60000,
                 "counters": {"template_side": 100000, "python_side": 30000,
                              "expect_typeerror": 20000, "default_used": 20000,
                              "hostile_name_renders": 50000,
                              "explicit_caller_calls": 8000, "explicit_caller_not_last_read": 1400}},
}


def signatures():
    out = []
    for n in range(0, 5):
        for k in range(0, min(3, n) + 1):
            for j in range(4 if k else 1):
                for mention in itertools.product([False, True], repeat=3):
                    out.append((n, k, j, mention))
    return out


def cpos_of(sig):
    """Index of the parameter that is DECLARED under the special name `caller`, or None."""
    return sig[4] if len(sig) > 4 else None


def pnames_of(sig):
    cpos = cpos_of(sig)
    return ["caller" if i == cpos else f"p{i + 1}" for i in range(sig[0])]


def explicit_caller_signatures():
    """Signatures whose parameter list declares `caller` itself (any position).  It is then an
    ordinary parameter: bound positionally in order, by keyword (a call block passes its body
    as the `caller` keyword) or from its default.  The default kind rotates with the shape."""
    out = []
    for n in range(1, 5):
        for k in range(0, min(3, n) + 1):
            for cpos in range(n):
                for mention in itertools.product([False, True], repeat=3):
                    if mention[2] and cpos < n - k:
                        continue  # body reads a declared caller without default: rejected at compile time
                    out.append((n, k, (n + k + cpos) % 3 if k else 0, mention, cpos))
    return out


def caller_param_print():
    """Prints a declared `caller` parameter: plain values as they are, a macro by calling it."""
    show = [["out", F(N("caller"), "default", C("U"))]]
    return ["if", [[["test", N("caller"), "undefined", [], False], show],
                   [["test", N("caller"), "none", [], False], show],
                   [["test", N("caller"), "number", [], False], show]],
            [["out", ["call", N("caller"), [], []]]]]


def make_macro(sig):
    n, k, j, (mv, mk, mc) = sig[:4]
    cpos = cpos_of(sig)
    names = pnames_of(sig)
    params = []
    for i in range(n):
        name = names[i]
        d = None
        di = i - (n - k)
        if di >= 0:
            kind = (di + j) % 3
            if j == 3:
                # the default mentions the parameter's OWN name; an outer variable of that
                # name exists.  Which binding is meant is undocumented: both readings are
                # accepted (see compare), but nothing else - in particular no internal object.
                d = N(name) if di == 0 else C(20 + di)
            elif kind == 1 and i > 0 and cpos != 0:
                d = ["bin", "+", N("p1"), C(100)]  # earlier parameter, evaluated at call time
            elif kind == 2:
                d = N("ov")                         # outer variable at call time
            else:
                d = C(20 + di)
        params.append([name, d])
    body = [["text", "["]]
    for name, _ in params:
        if name == "caller":
            if mc:
                body += [caller_param_print(), ["text", ","]]
            continue
        body += [["out", F(N(name), "default", C("U"))], ["text", ","]]
    body.append(["text", "]"])
    if mv:
        body += [["text", "V"], ["out", N("varargs")]]
    if mk:
        body += [["text", "K"], ["for", ["k"], F(N("kwargs"), "sort"),
                                 [["out", N("k")], ["text", "="], ["out", ["item", N("kwargs"), N("k")]], ["text", ";"]],
                                 None, None, False]]
    if mc and cpos is None:
        body += [["text", "C"], ["if", [[["test", N("caller"), "defined", [], False],
                                         [["out", ["call", N("caller"), [], []]]]]], [["text", "-"]]]]
    return ["macro", "m", params, body]


def unknown_name(sig):
    """The unknown keyword is a Python keyword for half of the signatures (such
    calls are compiled through a different code path)."""
    n, k, j, (mv, mk, mc) = sig[:4]
    return "class" if (n + k + j + mv) % 2 else "zz"


def call_shapes(sig):
    n, k, j, (mv, mk, mc) = sig[:4]
    cpos = cpos_of(sig)
    pnames = pnames_of(sig)
    kwnames = pnames + ["zz"]
    shapes = []
    for npos in range(0, 6):
        for r in range(0, min(4, len(kwnames)) + 1):
            for kws in itertools.combinations(kwnames, r):
                for star in (0, 1, 2, 3):
                    # 0 none, 1 *seq, 2 **map(param), 3 **map(unknown)
                    if star == 2 and (not pnames or pnames[-1] in kws):
                        continue
                    if star == 3 and "zz" in kws:
                        continue
                    if star and (npos > 3 or r > 2):
                        continue  # keep the star variants to the smaller shapes
                    for cb in (False, True):
                        if cb and mk and not mc:
                            continue
                        if cb and cpos is not None:
                            if "caller" in kws or (star == 2 and cpos == n - 1):
                                continue  # call block + explicit caller keyword: rejected by design
                            if mk and npos + (2 if star == 1 else 0) > cpos:
                                continue  # the call block's macro object would be printed from kwargs
                        shapes.append((npos, kws, star, cb))
    return shapes


def call_ast(sig, shape):
    n = sig[0]
    npos, kws, star, cb = shape
    args = [C(10 + i) for i in range(npos)]
    if star == 1:
        args.append(["star", ["list", [C(40), C(41)]]])
    un = unknown_name(sig)
    kw = [[un if name == "zz" else name, C(None) if (i + npos) % 3 == 2 else C(30 + i)] for i, name in enumerate(kws)]
    if star == 2:
        kw.append(["**", ["dict", [[C(pnames_of(sig)[-1]), C(50)]]]])
    if star == 3:
        kw.append(["**", ["dict", [[C(un), C(51)]]]])
    call = ["call", N("m"), args, kw]
    if cb:
        return ["callblock", [], call, [["text", "CB"]]]
    return ["out", call]


def py_args(sig, shape):
    n = sig[0]
    npos, kws, star, cb = shape
    args = [10 + i for i in range(npos)]
    if star == 1:
        args += [40, 41]
    un = unknown_name(sig)
    kw = {(un if name == "zz" else name): (None if (i + npos) % 3 == 2 else 30 + i) for i, name in enumerate(kws)}
    if star == 2:
        kw[pnames_of(sig)[-1]] = 50
    if star == 3:
        kw[un] = 51
    return args, kw


def own_default_param(sig):
    n, k, j, _ = sig[:4]
    return f"p{n - k + 1}" if (k and j == 3) else None


def prelude(sig, own_reading="outer"):
    pre = [["set", "ov", C(77)]]
    own = own_default_param(sig)
    if own:
        pre.append(["set", own, C(66)])
    return pre + [make_macro(sig), ["set", "ov", C(78)]]


HOSTILE = [{"p1": "obj", "p2": "self", "p3": "args", "p4": "func", "zz": "name"},
           {"p1": "self", "p2": "context", "p3": "value", "p4": "environment", "zz": "eval_ctx"},
           {"p1": "arguments", "p2": "autoescape", "p3": "self", "p4": "cls", "zz": "obj"}]


def rename_source(text, mp):
    import re

    return re.sub(r"\b(p[1-4]|zz)\b", lambda m: mp[m.group(1)], text)


def check_sig(ctx, sig, shapes, envs):
    pre = prelude(sig)
    branches = []
    for i, sh in enumerate(shapes):
        branches.append([["cmp", N("sel"), [["==", C(i)]]], [call_ast(sig, sh)]])
    body = pre + [["if", branches, None]]
    src = jast.ps(body)
    tmpls = {}
    for en, env in envs.items():
        tmpls[en] = env.from_string(src)
    # the same template with parameter and keyword names that also name parameters of the
    # engine's own call machinery: consistent renaming never changes how arguments bind
    hostile = HOSTILE[(sig[0] + sig[1] + sig[2]) % len(HOSTILE)]
    hsrc = rename_source(src, hostile)
    htmpl = util.capture(lambda: envs["default"].from_string(hsrc))
    if cpos_of(sig) is not None and ctx.tier == "quick":
        htmpl = None   # quick: the renaming probe stays with the implicit-caller signatures
    pymod = tmpls["default"].module
    for i, sh in enumerate(shapes):
        one = pre + [call_ast(sig, sh)]
        it = M.Interp({"t": one})
        mo = util.capture(lambda: it.render("t", {}))
        alts = [mo]
        own = own_default_param(sig)
        if own:
            # second accepted reading: the name inside the default is the (still unset) parameter
            mac = make_macro(sig)
            mac[2] = [[pn, (["name", "u_n_d_e_f"] if pn == own else d)] for pn, d in mac[2]]
            one2 = [st for st in pre if st[0] != "macro"]
            one2 = [x for x in one2]
            idx = [i for i, st in enumerate(pre) if st[0] == "macro"][0]
            alt_prog = pre[:idx] + [mac] + pre[idx + 1:] + [call_ast(sig, sh)]
            it2 = M.Interp({"t": alt_prog})
            alts.append(util.capture(lambda: it2.render("t", {})))
        if not mo.ok:
            if util.model_exc_name(mo.exc) == "TypeError":
                ctx.count("expect_typeerror")
            else:
                ctx.count("expect_other_error")
        elif "77" in mo.value or "78" in mo.value or "1" in mo.value[1:].split("]")[0].replace("10", ""):
            ctx.count("default_used")
        xc = cpos_of(sig) is not None
        xc_hot = xc and sig[3][2] and cpos_of(sig) < sig[0] - 1
        case = {"sig": list(sig[:3]) + [list(sig[3])] + ([cpos_of(sig)] if xc else []), "shape": [sh[0], list(sh[1]), sh[2], sh[3]]}
        for en, t in tmpls.items():
            eo = util.capture(lambda: t.render(sel=i))
            ctx.ev()
            ctx.count("template_side")
            if xc:
                ctx.count("explicit_caller_calls")
            if xc_hot:
                ctx.count("explicit_caller_not_last_read")
            bad = compare_any(alts, eo)
            if bad:
                ctx.violation(classify(sig, sh, mo, eo), f"{bad} | {jast.ps(one)!r} env={en}", case)
        if htmpl is None:
            pass
        elif htmpl.ok:
            eo = util.capture(lambda: htmpl.value.render(sel=i))
            base = util.capture(lambda: tmpls["default"].render(sel=i))
            ctx.ev()
            ctx.count("hostile_name_renders")
            # the only names that reach the output are unknown keywords printed from kwargs
            # (kwargs are printed sorted by name: compare that part as a set)
            ksort = lambda t: re.sub(r"K((?:\w+=[^;]*;)+)",   # noqa: E731
                                     lambda m: "K" + "".join(sorted(re.findall(r"\w+=[^;]*;", m.group(1)))), t)
            want = (("ok", ksort(re.sub(r"p[1-4]|zz", lambda m: hostile[m.group(0)], base.value))) if base.ok
                    else ("exc", type(base.exc).__name__))
            got = ("ok", ksort(eo.value)) if eo.ok else ("exc", type(eo.exc).__name__)
            if want != got:
                ctx.violation("bind:renamed-to-engine-parameter-names:" + "+".join(sorted(set(hostile.values()))),
                              f"{got!r} after renaming {hostile}, {want!r} expected | {hsrc!r} sel={i}", case)
        elif i == 0:
            ctx.violation("bind:renamed-to-engine-parameter-names:compile", f"{htmpl!r} | {hsrc!r}", case)
        # Python side: only shapes expressible without a call block
        if not sh[3]:
            a, kw = py_args(sig, sh)
            eo = util.capture(lambda: str(pymod.m(*a, **kw)))
            ctx.ev()
            ctx.count("python_side")
            if xc:
                ctx.count("explicit_caller_calls")
            if xc_hot:
                ctx.count("explicit_caller_not_last_read")
            bad = compare_any(alts, eo)
            if bad:
                ctx.violation("python:" + classify(sig, sh, mo, eo),
                              f"{bad} | module.m(*{a}, **{kw}) for {jast.ps(pre)!r}", case)
        ctx.dist([case["sig"], case["shape"]])


def compare(mo, eo):
    if mo.ok and eo.ok:
        return None if mo.value == eo.value else f"engine {eo.value!r} != spec {mo.value!r}"
    if not mo.ok and not eo.ok:
        return None if util.same_error(mo.exc, eo.exc) else f"engine {eo!r} / spec {mo!r}"
    return f"engine {eo!r} / spec {mo!r}"


def compare_any(alts, eo):
    res = [compare(a, eo) for a in alts]
    return None if any(r is None for r in res) else res[0]


def classify_explicit_caller(sig, sh, mo, eo):
    """Key for signatures that declare `caller`: where it stands, how this call binds it, and
    the kind of disagreement (spec outcome -> engine outcome)."""
    n, cpos = sig[0], cpos_of(sig)
    npos, kws, star, cb = sh
    eff = npos + (2 if star == 1 else 0)
    if eff > cpos:
        how = "positional-all" if eff >= n else "positional-partial"
    elif "caller" in kws or (star == 2 and cpos == n - 1):
        how = "keyword"
    elif cb:
        how = "callblock"
    else:
        how = "default"
    sym = lambda o: "ok" if o.ok else (util.model_exc_name(o.exc) if o is mo else type(o.exc).__name__)  # noqa: E731
    return "bind:explicit-caller:%s:%s:%s:%s->%s" % (
        "last" if cpos == n - 1 else "not-last", "read" if sig[3][2] else "unread", how, sym(mo), sym(eo))


def classify(sig, sh, mo, eo):
    if cpos_of(sig) is not None:
        return classify_explicit_caller(sig, sh, mo, eo)
    n, k, j, (mv, mk, mc) = sig[:4]
    npos, kws, star, cb = sh
    parts = []
    if npos > n:
        parts.append("surplus-positional" + ("+varargs" if mv else ""))
    if any(x == "zz" for x in kws) or star == 3:
        parts.append("unknown-keyword" + ("+kwargs" if mk else "") + (":python-keyword" if unknown_name(sig) == "class" else ""))
    if any(x != "zz" and int(x[1:]) <= npos for x in kws):
        parts.append("keyword-duplicates-positional")
    if k:
        parts.append("defaults" + (":own-name" if j == 3 else ""))
    if cb:
        parts.append("callblock" + ("+caller" if mc else ""))
    if star:
        parts.append("star%d" % star)
    return "bind:" + ("+".join(parts) or "plain")


def run(ctx):
    envs = util.make_envs(["default", "async"]) if False else util.make_envs(["default", "sandbox"])
    sigs = signatures()
    if ctx.tier == "quick":
        # deterministic third of the signatures, rotated by seed
        sigs = [s for i, s in enumerate(sigs) if (i + ctx.seed) % 3 == 0]
    xsigs = explicit_caller_signatures()
    if ctx.tier == "quick":
        # deterministic fifth of the declared-caller signatures, rotated by seed
        xsigs = [s for i, s in enumerate(xsigs) if (i + ctx.seed) % 5 == 0]
    sigs = sigs + xsigs
    done = 0
    for i, sig in enumerate(sigs):
        if not ctx.mine(i):
            continue
        shapes = call_shapes(sig)
        check_sig(ctx, sig, shapes, envs)
        done += 1
        if done == 1 and ctx.shard == 0:
            ctx.sample({"macro": jast.ps([make_macro(sig)]), "n_call_shapes": len(shapes),
                        "example_call": jast.ps([call_ast(sig, shapes[len(shapes) // 2])])})
        # the enumeration is a fixed amount of work: bound it by the CPU time this shard used (so a
        # heavily shared machine does not turn the run into INCONCLUSIVE), with a generous wall cap
        if time.process_time() > ctx.budget_s * 3 or ctx.elapsed() > ctx.budget_s * 12:
            ctx.inconc("enumeration did not finish within 3x budget (CPU) / 12x budget (wall)")
            return
    ctx.exhaustive = ctx.tier == "thorough"
    ctx.extra["signatures_enumerated"] = done


def replay(ctx, case):
    sig = (case["sig"][0], case["sig"][1], case["sig"][2], tuple(case["sig"][3])) + tuple(case["sig"][4:5])
    sh = (case["shape"][0], tuple(case["shape"][1]), case["shape"][2], case["shape"][3])
    check_sig(ctx, sig, [sh], util.make_envs(["default", "sandbox"]))
