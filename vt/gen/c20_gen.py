"""C20 helper: generator of arithmetic-heavy template programs, their Jinja
source text, and a small reference interpreter that yields the expected
sequence of operator-interception events and the expected output under a
deterministic perturbation of every intercepted result.

Everything is fully parenthesised in the source so the reference needs no
precedence table.  Trees are plain JSON lists.

expression nodes
    ["c", v]                 constant (int, float, str, bool)
    ["v", name]              variable
    ["b", op, L, R]          one of the 7 interceptable binary operators
    ["u", op, X]             one of the 2 interceptable unary operators
    ["and", L, R] ["or", L, R] ["not", X]
    ["if", A, C, B]          (A if C else B)
    ["cmp", op, L, R]
    ["cat", L, R]            (L ~ R)
    ["f", name, X, [args]]   filter application
    ["lst", [items]]         list literal
statements
    ["out", E]  ["set", name, E]  ["if", C, then, else]
    ["for", var, [items], cond_or_None, body]
    ["with", name, E, body]
    ["macro", name, argE_or_None, defaultE, body]   (definition + one call)
"""
from __future__ import annotations

import operator

BINOPS = ["+", "-", "*", "/", "//", "**", "%"]
UNOPS = ["+", "-"]
PY_BIN = {"+": operator.add, "-": operator.sub, "*": operator.mul,
          "/": operator.truediv, "//": operator.floordiv, "**": operator.pow,
          "%": operator.mod}
PY_UN = {"+": operator.pos, "-": operator.neg}
PY_CMP = {"==": operator.eq, "!=": operator.ne, "<": operator.lt,
          "<=": operator.le, ">": operator.gt, ">=": operator.ge}

CONTEXT = {"a": 3, "b": 4, "c": 2.5, "n": 7, "z": 0, "two": 2, "t": True,
           "w": "xy", "neg": -6, "h": 0.5}
NUM_VARS = ["a", "b", "c", "n", "z", "two", "neg", "h"]
BOOLISH_VARS = ["t"]
STR_VARS = ["w"]


class Discard(Exception):
    """The generated program is outside the modelled fragment (raises,
    overflows, produces complex numbers...)."""


def perturb(v):
    """What the recording hook does to every intercepted result."""
    if isinstance(v, bool):
        return int(v) + 1000
    if isinstance(v, (int, float)):
        return v + 1000
    if isinstance(v, str):
        return v + "~"
    if isinstance(v, list):
        return v + ["~"]
    return v


def tag(v):
    return f"{type(v).__name__}:{v!r}"


def _guard(v):
    if isinstance(v, complex):
        raise Discard("complex")
    if isinstance(v, float) and (v != v or v in (float("inf"), float("-inf"))):
        raise Discard("nan/inf")
    if isinstance(v, (int, float)) and abs(v) > 1e12:
        raise Discard("magnitude")
    if isinstance(v, str) and len(v) > 300:
        raise Discard("long string")
    return v


# ------------------------------------------------------------------ source
def src(n):
    k = n[0]
    if k == "c":
        v = n[1]
        if isinstance(v, bool):
            return "true" if v else "false"
        if isinstance(v, str):
            return "'" + v + "'"
        return repr(v)
    if k == "v":
        return n[1]
    if k == "b":
        return f"({src(n[2])} {n[1]} {src(n[3])})"
    if k == "u":
        return f"({n[1]}{src(n[2])})"
    if k in ("and", "or"):
        return f"({src(n[1])} {k} {src(n[2])})"
    if k == "not":
        return f"(not {src(n[1])})"
    if k == "if":
        return f"({src(n[1])} if {src(n[2])} else {src(n[3])})"
    if k == "cmp":
        return f"({src(n[2])} {n[1]} {src(n[3])})"
    if k == "cat":
        return f"({src(n[1])} ~ {src(n[2])})"
    if k == "f":
        args = ", ".join(src(a) for a in n[3])
        return f"({src(n[2])}|{n[1]}" + (f"({args}))" if n[3] else ")")
    if k == "lst":
        return "[" + ", ".join(src(x) for x in n[1]) + "]"
    raise AssertionError(k)


def stmts_src(stmts):
    out = []
    for s in stmts:
        k = s[0]
        if k == "out":
            out.append("{{ " + src(s[1]) + " }};")
        elif k == "set":
            out.append("{% set " + s[1] + " = " + src(s[2]) + " %}")
        elif k == "if":
            out.append("{% if " + src(s[1]) + " %}" + stmts_src(s[2])
                       + "{% else %}" + stmts_src(s[3]) + "{% endif %}")
        elif k == "for":
            items = ", ".join(src(x) for x in s[2])
            cond = f" if {src(s[3])}" if s[3] is not None else ""
            out.append("{% for " + s[1] + " in [" + items + "]" + cond + " %}"
                       + stmts_src(s[4]) + "{% endfor %}")
        elif k == "with":
            out.append("{% with " + s[1] + " = " + src(s[2]) + " %}"
                       + stmts_src(s[3]) + "{% endwith %}")
        elif k == "macro":
            name, arg, dflt, body = s[1], s[2], s[3], s[4]
            out.append("{% macro " + name + "(p, q=" + src(dflt) + ") %}"
                       + stmts_src(body) + "{% endmacro %}{{ " + name + "("
                       + (src(arg) if arg is not None else "1") + ") }}")
        else:
            raise AssertionError(k)
    return "".join(out)


# --------------------------------------------------------------- reference
class Ref:
    def __init__(self, binops, unops):
        self.binops = set(binops)
        self.unops = set(unops)
        self.log = []
        self.applied = {}   # operator applications seen (intercepted or not)

    def ev(self, n, env):
        k = n[0]
        if k == "c":
            return n[1]
        if k == "v":
            return env[n[1]]
        if k == "b":
            op = n[1]
            l = self.ev(n[2], env)
            r = self.ev(n[3], env)
            try:
                real = PY_BIN[op](l, r)
            except Exception as e:
                raise Discard(f"{type(e).__name__}") from None
            _guard(real)
            self.applied["b" + op] = self.applied.get("b" + op, 0) + 1
            if op in self.binops:
                self.log.append(["b", op, tag(l), tag(r)])
                return _guard(perturb(real))
            return real
        if k == "u":
            op = n[1]
            x = self.ev(n[2], env)
            try:
                real = PY_UN[op](x)
            except Exception as e:
                raise Discard(f"{type(e).__name__}") from None
            self.applied["u" + op] = self.applied.get("u" + op, 0) + 1
            if op in self.unops:
                self.log.append(["u", op, tag(x)])
                return _guard(perturb(real))
            return real
        if k == "and":
            l = self.ev(n[1], env)
            return self.ev(n[2], env) if l else l
        if k == "or":
            l = self.ev(n[1], env)
            return l if l else self.ev(n[2], env)
        if k == "not":
            return not self.ev(n[1], env)
        if k == "if":
            if self.ev(n[2], env):
                return self.ev(n[1], env)
            return self.ev(n[3], env)
        if k == "cmp":
            l = self.ev(n[2], env)
            r = self.ev(n[3], env)
            try:
                return PY_CMP[n[1]](l, r)
            except Exception as e:
                raise Discard(type(e).__name__) from None
        if k == "cat":
            l = self.ev(n[1], env)
            r = self.ev(n[2], env)
            return _guard(str(l) + str(r))
        if k == "lst":
            return [self.ev(x, env) for x in n[1]]
        if k == "f":
            x = self.ev(n[2], env)
            args = [self.ev(a, env) for a in n[3]]
            name = n[1]
            try:
                if name == "abs":
                    return abs(x)
                if name == "int":
                    return int(x)
                if name == "string":
                    return str(x)
                if name == "default":
                    return x
                if name == "sum":
                    if any(isinstance(i, float) for i in x):
                        # builtin sum() compensates float rounding (3.12+), the
                        # async filter variant adds naively: not this property
                        raise Discard("float sum")
                    return _guard(sum(x))
                if name == "max":
                    return max(x)
                if name == "min":
                    return min(x)
                if name == "first":
                    return x[0]
                if name == "last":
                    return x[-1]
                if name == "length":
                    return len(x)
                if name == "join":
                    return _guard(str(args[0]).join(str(i) for i in x))
            except Discard:
                raise
            except Exception as e:
                raise Discard(type(e).__name__) from None
        raise AssertionError(k)

    def run(self, stmts, env):
        out = []
        for s in stmts:
            k = s[0]
            if k == "out":
                out.append(str(self.ev(s[1], env)) + ";")
            elif k == "set":
                env[s[1]] = self.ev(s[2], env)
            elif k == "if":
                if self.ev(s[1], env):
                    out.append(self.run(s[2], env))
                else:
                    out.append(self.run(s[3], env))
            elif k == "for":
                items = [self.ev(x, env) for x in s[2]]
                for it in items:
                    e2 = dict(env)
                    e2[s[1]] = it
                    if s[3] is not None and not self.ev(s[3], e2):
                        continue
                    out.append(self.run(s[4], e2))
            elif k == "with":
                e2 = dict(env)
                e2[s[1]] = self.ev(s[2], env)
                out.append(self.run(s[3], e2))
            elif k == "macro":
                arg, dflt, body = s[2], s[3], s[4]
                p = self.ev(arg, env) if arg is not None else 1
                e2 = dict(CONTEXT)      # macro body only uses p, q and context vars
                e2["p"] = p
                e2["q"] = self.ev(dflt, dict(CONTEXT))
                out.append(self.run(body, e2))
            else:
                raise AssertionError(k)
        return "".join(out)


# --------------------------------------------------------------- generator
class Gen:
    def __init__(self, rng):
        self.rng = rng

    def num(self, d, vars_):
        r = self.rng
        if d <= 0 or r.random() < 0.18:
            x = r.random()
            if x < 0.45:
                return ["c", r.choice([0, 1, 2, 3, 4, 5, 7, 9, 10, 12])]
            if x < 0.6:
                return ["c", r.choice([0.5, 1.5, 2.0, 2.5, 4.0])]
            if x < 0.65:
                return ["v", r.choice(BOOLISH_VARS)]
            return ["v", r.choice(vars_)]
        x = r.random()
        if x < 0.55:
            op = r.choice(BINOPS)
            if op == "**":
                right = r.choice([["c", 0], ["c", 1], ["c", 2], ["c", 3], ["v", "two"]])
                return ["b", op, self.num(d - 1, vars_), right]
            return ["b", op, self.num(d - 1, vars_), self.num(d - 1, vars_)]
        if x < 0.72:
            return ["u", r.choice(UNOPS), self.num(d - 1, vars_)]
        if x < 0.80:
            return ["if", self.num(d - 1, vars_), self.boolean(d - 1, vars_),
                    self.num(d - 1, vars_)]
        if x < 0.86:
            return [r.choice(["and", "or"]), self.num(d - 1, vars_), self.num(d - 1, vars_)]
        if x < 0.93:
            f = r.choice(["abs", "int", "default"])
            args = [self.num(d - 1, vars_)] if f == "default" else []
            return ["f", f, self.num(d - 1, vars_), args]
        f = r.choice(["sum", "max", "min", "first", "last", "length"])
        items = [self.num(d - 1, vars_) for _ in range(r.randint(1, 3))]
        return ["f", f, ["lst", items], []]

    def boolean(self, d, vars_):
        r = self.rng
        if d <= 0 or r.random() < 0.15:
            return r.choice([["c", True], ["c", False], ["v", "t"]])
        x = r.random()
        if x < 0.6:
            return ["cmp", r.choice(list(PY_CMP)), self.num(d - 1, vars_),
                    self.num(d - 1, vars_)]
        if x < 0.75:
            return ["not", self.boolean(d - 1, vars_)]
        return [r.choice(["and", "or"]), self.boolean(d - 1, vars_),
                self.boolean(d - 1, vars_)]

    def string(self, d, vars_):
        r = self.rng
        if d <= 0 or r.random() < 0.2:
            return r.choice([["c", "ab"], ["c", "q"], ["v", "w"]])
        x = r.random()
        if x < 0.3:
            return ["b", "+", self.string(d - 1, vars_), self.string(d - 1, vars_)]
        if x < 0.45:
            return ["b", "*", self.string(d - 1, vars_), ["c", r.choice([0, 1, 2, 3])]]
        if x < 0.6:
            return ["b", "%", ["c", r.choice(["<%s>", "%s!", "v=%s"])], self.num(d - 1, vars_)]
        if x < 0.8:
            return ["cat", self.any(d - 1, vars_), self.any(d - 1, vars_)]
        if x < 0.9:
            return ["f", "string", self.num(d - 1, vars_), []]
        items = [self.any(d - 1, vars_) for _ in range(r.randint(1, 3))]
        return ["f", "join", ["lst", items], [["c", r.choice([",", "-"])]]]

    def any(self, d, vars_):
        return self.string(d, vars_) if self.rng.random() < 0.25 else self.num(d, vars_)

    def program(self):
        r = self.rng
        vars_ = list(NUM_VARS)
        stmts = []
        nset = 0
        for _ in range(r.randint(1, 4)):
            x = r.random()
            d = r.randint(1, 4)
            if x < 0.40:
                stmts.append(["out", self.any(d, vars_)])
            elif x < 0.55:
                name = f"s{nset}"
                nset += 1
                stmts.append(["set", name, self.num(d, vars_)])
                vars_ = vars_ + [name]
            elif x < 0.65:
                stmts.append(["if", self.boolean(d, vars_),
                              [["out", self.any(d - 1, vars_)]],
                              [["out", self.any(d - 1, vars_)]]])
            elif x < 0.80:
                items = [self.num(d - 1, vars_) for _ in range(r.randint(1, 3))]
                if r.random() < 0.5:
                    # arithmetic in the loop filter, plain body
                    cond = self.boolean(2, vars_ + ["x"])
                    body = [["out", ["v", "x"]]]
                else:
                    cond = None
                    body = [["out", self.any(d - 1, vars_ + ["x"])]]
                stmts.append(["for", "x", items, cond, body])
            elif x < 0.90:
                stmts.append(["with", "y", self.num(d, vars_),
                              [["out", self.any(d - 1, vars_ + ["y"])]]])
            else:
                mv = list(NUM_VARS)
                arg = self.num(d - 1, vars_) if r.random() < 0.6 else None
                dflt = self.num(d - 1, mv)
                body = [["out", self.any(d - 1, mv + ["p", "q"])]]
                stmts.append(["macro", f"m{len(stmts)}", arg, dflt, body])
        # the last statement always shows every set variable so an unrouted
        # application inside a set statement is visible in the output
        for i in range(nset):
            stmts.append(["out", ["v", f"s{i}"]])
        return stmts
