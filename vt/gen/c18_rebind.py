"""C18, ninth part: the NAME the template calls has a binding history.

A name in a template is not bound once: within one scope it may first be given
to something harmless (a macro definition, an imported macro, a template
module, a constant, a safe callable, a block set, a loop / with variable that
is already over, a definition in a branch that is not taken) and later hold the
callable the sandbox refuses.  The grammar below composes

  scope(  guard(prior binding of N)  [use of the prior value]  rebind N  BODY  )

where BODY is one of the call sites of the main grammar written with N as the
callee.  @N@ = the name, ## = the obtain expression, BODY = the site text,
INNER = everything inside the scope.
"""
from __future__ import annotations

NAMES = ["g", "helper", "fmt"]

#: prior binding of the name: (text, use of the prior value, extra templates)
PRIOR = {
    "none": ("", "", {}),
    "macro": ("{% macro @N@(x=1) %}m{% endmacro %}", "{{ @N@(1) }}", {}),
    "macro_args": ("{% macro @N@(a=0, b=2) %}{{ a }}{{ varargs }}{{ kwargs }}{% endmacro %}", "{{ @N@(1) }}", {}),
    "macro_caller": ("{% macro @N@() %}{{ caller() if caller else '' }}{% endmacro %}",
                     "{% call @N@() %}c{% endcall %}", {}),
    "macro_twice": ("{% macro @N@() %}a{% endmacro %}{% macro @N@(x=1) %}b{% endmacro %}", "{{ @N@() }}", {}),
    "macro_alias": ("{% macro rpm(x=1) %}m{% endmacro %}{% set @N@ = rpm %}", "{{ @N@(1) }}", {}),
    "set_const": ("{% set @N@ = 1 %}", "{{ @N@ }}", {}),
    "set_safe_callable": ("{% set @N@ = ident %}", "{{ @N@(1) }}", {}),
    "set_block": ("{% set @N@ %}x{% endset %}", "{{ @N@ }}", {}),
    "import_as": ("{% import 'rlib' as @N@ %}", "{{ @N@.rm() }}", {"rlib": "{% macro rm(x=1) %}m{% endmacro %}"}),
    "from_import": ("{% from 'rlibn' import @N@ %}", "{{ @N@(1) }}",
                    {"rlibn": "{% macro @N@(x=1) %}m{% endmacro %}"}),
    "from_import_as": ("{% from 'rlib' import rm as @N@ %}", "{{ @N@(1) }}",
                       {"rlib": "{% macro rm(x=1) %}m{% endmacro %}"}),
    "loop_var_over": ("{% for @N@ in [1] %}{{ @N@ }}{% endfor %}", "", {}),
    "with_var_over": ("{% with @N@ = 1 %}{{ @N@ }}{% endwith %}", "", {}),
    "macro_in_inner_macro": ("{% macro rim() %}{% macro @N@() %}m{% endmacro %}{{ @N@() }}{% endmacro %}",
                             "{{ rim() }}", {}),
}
MACRO_PRIORS = ("macro", "macro_args", "macro_caller", "macro_twice", "macro_alias", "from_import",
                "from_import_as", "macro_in_inner_macro")

#: is the prior binding executed?  @P@ = the prior text
GUARD = {
    "plain": "@P@",
    "if_true": "{% if true %}@P@{% endif %}",
    "if_false": "{% if false %}@P@{% endif %}",
    "else_not_taken": "{% if true %}{% else %}@P@{% endif %}",
    "empty_loop": "{% for rgi in [] %}@P@{% endfor %}",
}
NOT_EXECUTED = ("if_false", "else_not_taken", "empty_loop")

#: how the name comes to hold the callable afterwards -> (text with BODY, extra templates)
#: 'data' / 'global': the render data / env.globals hold the callable under the
#: name from the start (reached when the prior binding is not executed, is over,
#: or comes after the call).
REBIND = {
    "set": ("{% set @N@ = ## %}BODY", {}),
    "set_tuple": ("{% set rz, @N@ = 1, ## %}BODY", {}),
    "set_in_if": ("{% if true %}{% set @N@ = ## %}{% endif %}BODY", {}),
    "set_via_tmp": ("{% set rtmp = ## %}{% set @N@ = rtmp %}BODY", {}),
    "set_twice": ("{% set @N@ = none %}{% set @N@ = ## %}BODY", {}),
    "from_import_as": ("{% from 'rlib2' import rhg as @N@ with context %}BODY", {"rlib2": "{% set rhg = ## %}"}),
    "from_import_same": ("{% from 'rlib3' import @N@ with context %}BODY", {"rlib3": "{% set @N@ = ## %}"}),
    "with": ("{% with @N@ = ## %}BODY{% endwith %}", {}),
    "loop_var": ("{% for @N@ in [##] %}BODY{% endfor %}", {}),
    "macro_param": ("{% macro rwm(@N@) %}BODY{% endmacro %}{{ rwm(##) }}", {}),
    "data": ("BODY", {}),
    "global": ("BODY", {}),
}
SAME_SCOPE_REBINDS = ("set", "set_tuple", "set_in_if", "set_via_tmp", "set_twice", "from_import_as",
                      "from_import_same")

#: where prior, rebinding and call sit -> (text with INNER, extra templates with INNER)
SCOPE = {
    "top": ("INNER", {}),
    "macro_body": ("{% macro router() %}INNER{% endmacro %}{{ router() }}", {}),
    "nested_macro_body": ("{% macro router() %}{% macro rinner() %}INNER{% endmacro %}{{ rinner() }}"
                          "{% endmacro %}{{ router() }}", {}),
    "block": ("{% block rb %}INNER{% endblock %}", {}),
    "for_body": ("{% for rfi in [1] %}INNER{% endfor %}", {}),
    "if_body": ("{% if true %}INNER{% endif %}", {}),
    "with_body": ("{% with rw = 1 %}INNER{% endwith %}", {}),
    "call_block_body": ("{% macro rcm() %}{{ caller() }}{% endmacro %}{% call rcm() %}INNER{% endcall %}", {}),
    "filter_block": ("{% filter upper %}INNER{% endfilter %}", {}),
    "set_block": ("{% set rs %}INNER{% endset %}{{ rs }}", {}),
    "autoescape_block": ("{% autoescape true %}INNER{% endautoescape %}", {}),
    "included": ("{% include 'rinc' %}", {"rinc": "INNER"}),
    "extends_child_block": ("{% extends 'rbase' %}{% block rb %}INNER{% endblock %}",
                            {"rbase": "<{% block rb %}{% endblock %}>"}),
    "imported_macro": ("{% import 'rmod' as rmod with context %}{{ rmod.rmm() }}",
                       {"rmod": "{% macro rmm() %}INNER{% endmacro %}"}),
}

#: order of the pieces inside the scope: the prior binding before the rebinding
#: (the history proper) or AFTER the call (the name is bound later on)
ORDER = ["prior_first", "prior_used_first", "prior_last"]


def rows():
    """(prior, guard, rebind, scope, order) rows of the deterministic core."""
    out = []
    i = 0
    guards = list(GUARD)
    for prior in PRIOR:
        for rebind in REBIND:
            for scope in SCOPE:
                i += 1
                if prior == "none":
                    guard, order = "plain", "prior_first"
                else:
                    # the plain guard on two of three rows, the others rotate
                    guard = "plain" if i % 3 else guards[1 + (i // 3) % (len(guards) - 1)]
                    order = ORDER[(i // 2) % 3] if i % 4 == 0 else ORDER[i % 2]
                if rebind in ("data", "global") and guard not in NOT_EXECUTED and order != "prior_last" \
                        and prior not in ("none", "loop_var_over", "with_var_over"):
                    # the prior binding would win: make it one that does not run
                    guard = NOT_EXECUTED[i % len(NOT_EXECUTED)]
                out.append((prior, guard, rebind, scope, order))
    return out


def compose(case, obtain_expr, site_text, site_templates, fill):
    """-> (source, templates).  site_text / site_templates are the raw SITES
    texts of the main grammar, fill(text) substitutes callee and arguments."""
    name = case["name"]
    ptext, puse, ptemplates = PRIOR[case["prior"]]
    prior = GUARD[case["guard"]].replace("@P@", ptext)
    if case["guard"] in NOT_EXECUTED:
        puse = ""
    rtext, rtemplates = REBIND[case["rebind"]]
    rest = rtext.replace("BODY", fill(site_text))
    order = case["order"]
    if order == "prior_first":
        inner = prior + rest
    elif order == "prior_used_first":
        inner = prior + puse + rest
    else:
        inner = rest + prior
    stext, stemplates = SCOPE[case["scope"]]
    templates = {}
    for k, v in site_templates.items():
        templates[k] = fill(v)
    for src in (ptemplates, rtemplates):
        for k, v in src.items():
            templates[k] = v
    source = stext.replace("INNER", inner)
    for k, v in stemplates.items():
        templates[k] = v.replace("INNER", inner)

    def fin(text):
        return text.replace("@N@", name).replace("##", obtain_expr)
    return fin(source), {k: fin(v) for k, v in templates.items()}
