"""Template *sets*: inheritance chains (C04) and include/import graphs (C05)."""
from __future__ import annotations

from vt.gen.stmtgen import C, N, F


def T(s):
    return ["text", s]


# =====================================================================
# C04: inheritance hierarchies
# =====================================================================
class HGen:
    def __init__(self, rng):
        self.r = rng
        self.loopblocks = set()
        self.info = {"super": False, "supersuper": False, "self": False, "scoped": False, "scoped_reads_loop": False,
                     "block_in_toplevel_if": False, "child_include": False, "child_callblock": False,
                     "child_filter_with": False, "child_block_in_loop": False,
                     "required": False, "dynamic": False, "conditional": False, "nested": False,
                     "outside": False}

    def pick(self, xs):
        return xs[self.r.randrange(len(xs))]

    def hierarchy(self):
        r = self.r
        depth = r.choice([1, 2, 2, 3, 3, 4])
        nblocks = r.randint(1, 5)
        names = [f"b{i + 1}" for i in range(nblocks)]
        scoped = {n: r.random() < 0.35 for n in names}
        templates = {}
        data = {"items": [r.randint(0, 9) for _ in range(r.randint(1, 3))], "item": "D",
                "x": r.randint(0, 9)}
        # ---- root
        self.cnt = 0
        root_blocks = [n for n in names if r.random() < 0.8] or [names[0]]
        required = None
        if depth >= 2 and r.random() < 0.2:
            required = self.pick(root_blocks)
            self.info["required"] = True
        templates["t0"] = self.root_body("t0", root_blocks, scoped, required, names)
        overridden = {n: 0 for n in names}
        defined = {n: (1 if n in root_blocks else 0) for n in names}
        bitmap = []
        for lvl in range(1, depth):
            tn = f"t{lvl}"
            body = []
            mode = r.random()
            parent = f"t{lvl - 1}"
            if mode < 0.7:
                body.append(["extends", C(parent)])
            elif mode < 0.85:
                data[f"layout{lvl}"] = parent
                body.append(["extends", N(f"layout{lvl}")])
                self.info["dynamic"] = True
            else:
                flag = r.random() < 0.7
                data[f"use{lvl}"] = flag
                body.append(["if", [[N(f"use{lvl}"), [["extends", C(parent)]]]], None])
                self.info["conditional"] = True
            ov = [n for n in names if r.random() < 0.5]
            if required and lvl == depth - 1 and r.random() < 0.8 and required not in ov:
                ov.append(required)
            bm = 0
            for n in names:
                if n in ov:
                    bm |= 1 << names.index(n)
            bitmap.append(bm)
            for n in ov:
                if r.random() < 0.4:
                    body.append(T(f"[{tn}.out{self.next()}]"))
                    self.info["outside"] = True
                bd = self.block_def(tn, n, scoped[n], defined[n] > 0, names, ov, lvl)
                w = r.random()
                if w < 0.15:
                    # a block definition wrapped in a top-level if of a child template is only
                    # registered, never rendered in place
                    bd = ["if", [[C(True), [bd]]], None]
                    self.info["block_in_toplevel_if"] = True
                elif w < 0.3:
                    fl = f"bf{lvl}_{n}"
                    data[fl] = r.random() < 0.5
                    bd = ["if", [[N(fl), [bd]]], [T(f"[{tn}.else{self.next()}]")]]
                    self.info["block_in_toplevel_if"] = True
                body.append(bd)
                defined[n] += 1
            if r.random() < 0.4:
                body.append(T(f"[{tn}.tail{self.next()}]"))
                self.info["outside"] = True
            # other kinds of content outside blocks in a child template: none of it is rendered
            k = r.random()
            if k < 0.10:
                templates["incx"] = [T("[INCX]")]
                body.insert(r.randint(1, len(body)), ["include", C("incx"), None, False])
                self.info["child_include"] = True
            elif k < 0.18:
                body.insert(1, ["macro", f"cm{lvl}", [], [T("[CM]"), ["out", ["call", N("caller"), [], []]]]])
                body.insert(r.randint(2, len(body)), ["callblock", [], ["call", N(f"cm{lvl}"), [], []], [T(f"[{tn}.call]")]])
                self.info["child_callblock"] = True
            elif k < 0.26:
                body.insert(r.randint(1, len(body)), ["filterblock", "upper", [], [T(f"[{tn}.filt]")]])
                body.insert(r.randint(1, len(body)), ["with", [["wv", C(1)]], [T(f"[{tn}.with]"), ["out", N("wv")]]])
                self.info["child_filter_with"] = True
            elif k < 0.34:
                fresh = [n for n in names if n not in ov]
                if fresh:
                    n = self.pick(fresh)
                    bd = self.block_def(tn, n, scoped[n], defined[n] > 0, names, ov, lvl)
                    body.insert(r.randint(1, len(body)), ["for", ["item"], N("items"), [T("<"), bd, T(">")], None, None, False])
                    defined[n] += 1
                    self.info["child_block_in_loop"] = True
            templates[tn] = body
        leaf = f"t{depth - 1}"
        return templates, leaf, data, (depth, tuple(bitmap))

    def next(self):
        self.cnt += 1
        return self.cnt

    def frag(self, tn, bn):
        return T(f"[{tn}.{bn}.{self.next()}]")

    def root_body(self, tn, blocks, scoped, required, names):
        r = self.r
        body = [T(f"[{tn}.head]")]
        placed = []
        for n in blocks:
            if n in placed:
                continue
            if n == required:
                body.append(["block", n, [], scoped[n], True])
                placed.append(n)
                continue
            inner = [self.frag(tn, n)]
            # nested block
            # a nested block keeps the scoped flag of the enclosing block (the
            # documentation does not say what an unscoped block inside a scoped one sees)
            rest = [m for m in blocks if m not in placed and m != n and m != required
                    and scoped[m] == scoped[n]]
            if rest and r.random() < 0.3:
                m = self.pick(rest)
                inner.append(["block", m, [self.frag(tn, m), ["out", N("item")]], scoped[m], False])
                placed.append(m)
                self.info["nested"] = True
            inner.append(["out", N("item")])
            if r.random() < 0.3:
                inner.append(["out", N("x")])
            blk = ["block", n, inner, scoped[n], False]
            placed.append(n)
            if r.random() < 0.4:
                # block inside a loop: scoped ones see the loop variable (and `loop`)
                if scoped[n]:
                    self.info["scoped"] = True
                    self.loopblocks.add(n)
                    if r.random() < 0.6:
                        inner.append(["out", ["attr", N("loop"), self.pick(["index", "revindex", "length", "first"])]])
                        self.info["scoped_reads_loop"] = True
                site = blk
                w = r.random()
                if w < 0.25:
                    site = ["if", [[C(True), [blk]]], None]
                elif w < 0.45:
                    site = ["with", [["wv", C(1)]], [blk]]
                elif w < 0.55:
                    site = ["if", [[N("x") if False else C(True), [["with", [["wv", C(2)]], [blk]]]]], None]
                body.append(["for", ["item"], N("items"), [T("("), site, T(")")], None, None, False])
            else:
                body.append(blk)
            body.append(T(f"[{tn}.sep{self.next()}]"))
        if r.random() < 0.3 and placed:
            n = self.pick(placed)
            body.append(["out", ["call", ["attr", N("self"), n], [], []]])
            self.info["self"] = True
        return body

    def block_def(self, tn, n, scoped, has_parent, names, ov, lvl):
        r = self.r
        inner = [self.frag(tn, n)]
        k = r.random()
        if k < 0.45:
            inner.append(["out", ["call", N("super"), [], []]])
            self.info["super"] = True
        elif k < 0.55 and lvl >= 2:
            inner.append(["out", ["call", ["attr", N("super"), "super"], [], []]])
            self.info["supersuper"] = True
        if r.random() < 0.5:
            inner.append(["out", N("item")])
        if scoped and n in self.loopblocks and r.random() < 0.4:
            inner.append(["out", ["attr", N("loop"), self.pick(["index", "last"])]])
            self.info["scoped_reads_loop"] = True
        if r.random() < 0.15 and not scoped:
            # self.x() from inside a scoped block: which variables the called
            # block sees is undocumented, so only unscoped blocks call it
            m = self.pick(names)
            inner.append(["out", ["call", ["attr", N("self"), m], [], []]] if m != n else T(""))
            self.info["self"] = True
        inner.append(self.frag(tn, n))
        return ["block", n, inner, scoped, False]


# =====================================================================
# C05: include / import sets
# =====================================================================
class IGen:
    """Main template `main` including/importing helper templates.

    Helpers print the variables they can see (`{{ v|default('~') }}`) so
    context visibility is directly observable; imported modules export
    macros and assignments (public and `_private`)."""

    VARS = ["g", "p", "q", "lv", "wv", "mv"]

    def __init__(self, rng):
        self.r = rng
        self.info = set()
        self.cnt = 0

    def pick(self, xs):
        return xs[self.r.randrange(len(xs))]

    def next(self):
        self.cnt += 1
        return self.cnt

    def show(self, tag):
        """Statements printing every probe variable as seen from here."""
        out = [T(f"<{tag}:")]
        for v in self.VARS:
            out.append(["out", F(N(v), "default", C("~"))])
            out.append(T(","))
        out.append(T(">"))
        return out

    def helper_inc(self, name, nested=None):
        body = self.show(name)
        if self.r.random() < 0.5:
            body.append(["set", "p", C(70 + self.next())])  # must not leak back
            body.append(["out", N("p")])
        if nested:
            body.append(nested)
        return body

    def helper_mod(self, name, nested_import=None):
        r = self.r
        body = [T(f"[{name}.body]")]
        body.append(["set", "pub", C(40 + self.next())])
        body.append(["set", "_priv", C(50 + self.next())])
        body.append(["macro", "mac", [["a", C(1)]],
                     [T(f"{{{name}.mac:"), ["out", N("a")], T("|")] + self.show(name + ".m") + [T("}")]])
        body.append(["macro", "_hidden", [], [T("hidden")]])
        if r.random() < 0.5:
            body.append(["if", [[C(True), [["set", "condpub", C(60 + self.next())]]]], None])
        if r.random() < 0.5:
            # a public macro chosen by a top-level if (one of two implementations)
            self.info.add("macro_in_toplevel_if")
            body.append(["if", [[N("g"), [["macro", "condmac", [], [T(f"{{{name}.condmac.A}}")]]]]],
                         [["macro", "condmac", [], [T(f"{{{name}.condmac.B}}")]]]])
        if r.random() < 0.4:
            body.append(["for", ["loopv"], ["list", [C(1)]], [["set", "inloop", C(9)]], None, None, False])
        if r.random() < 0.4:
            body.append(["setblock", "blockpub", [T(f"{name}.blk")]])
        if nested_import:
            body.append(nested_import)
        # a late assignment: macros see module variables as they are at call time
        if r.random() < 0.4:
            body.append(["set", "pub", C(80 + self.next())])
        return body

    def tset(self):
        r = self.r
        tpls = {}
        data = {"p": r.randint(1, 9), "q": r.randint(1, 9)}
        if r.random() < 0.5:
            data["lv"] = "D"
        glob = {"g": "G"}
        n_inc = r.randint(1, 2)
        n_mod = r.randint(1, 2)
        for i in range(n_inc):
            nested = None
            k = r.random()
            if k < 0.3:
                nested = ["include", C("leaf"), self.pick([None, True, False]), False]
                tpls["leaf"] = self.show("leaf")
                self.info.add("nested_include")
            elif k < 0.4:
                # an existing template whose own include is missing: `ignore missing`
                # at the outer site must not swallow this
                nested = ["include", C("nope_inner"), None, False]
                self.info.add("nested_missing")
            tpls[f"inc{i}"] = self.helper_inc(f"inc{i}", nested)
        for i in range(n_mod):
            nested = None
            if i == 1 and r.random() < 0.6:
                if r.random() < 0.5:
                    nested = ["import", C("mod0"), "inner", self.pick([None, True, False])]
                else:
                    # the module imports a name it also defines itself, under an alias: its own
                    # definition stays exported, the alias is not
                    nested = ["from", C("mod0"), [[self.pick(["pub", "mac", "condpub"]), "inner"]],
                              self.pick([None, True, False])]
                    self.info.add("nested_from_import_alias_of_own_name")
                self.info.add("nested_import")
            tpls[f"mod{i}"] = self.helper_mod(f"mod{i}", nested)
        incs = [f"inc{i}" for i in range(n_inc)]
        mods = [f"mod{i}" for i in range(n_mod)]
        body = [T("[main]")]
        nstm = r.randint(2, 6)
        for _ in range(nstm):
            body.extend(self.site(incs, mods, data, depth=0))
        tpls["main"] = body
        return tpls, data, glob

    def inc_stmt(self, incs, data):
        r = self.r
        k = r.random()
        wc = self.pick([None, None, True, False])
        if wc is False:
            self.info.add("include_without_context")
        if k < 0.45:
            return ["include", C(self.pick(incs)), wc, False]
        if k < 0.6:
            self.info.add("ignore_missing")
            return ["include", C(self.pick(["nope", "nope2"] + incs)), wc, True]
        if k < 0.64:
            self.info.add("include_missing_error")
            return ["include", C("nope"), wc, False]
        if k < 0.87:
            self.info.add("include_list")
            names = [self.pick(["nope", "nope2"] + incs) for _ in range(r.randint(1, 3))]
            items = []
            for n in names:
                f = r.random()
                if f < 0.6 or not n.startswith("inc"):
                    items.append(C(n))
                elif f < 0.75:
                    # computed names: "inc" ~ sfx, cfg.widget, names[0], conditional
                    data["sfx"] = n[3:]
                    items.append(["bin", "~", C("inc"), N("sfx")])
                    self.info.add("include_computed_name")
                elif f < 0.85:
                    data["cfg"] = {"widget": n}
                    items.append(["attr", N("cfg"), "widget"])
                    self.info.add("include_computed_name")
                elif f < 0.93:
                    data["tnames"] = [n]
                    items.append(["item", N("tnames"), C(0)])
                    self.info.add("include_computed_name")
                else:
                    items.append(["cond", C(n), C(True), C("nope")])
                    self.info.add("include_computed_name")
            return ["include", ["list", items], wc, r.random() < 0.5]
        self.info.add("include_object")
        data["tobj"] = {"$tpl": self.pick(incs)}
        return ["include", N("tobj"), wc, False]

    def imp_stmts(self, mods, data):
        r = self.r
        m = self.pick(mods)
        wc = self.pick([None, None, True, False])
        if wc is True:
            self.info.add("import_with_context")
        k = r.random()
        alias = f"M{self.next()}"
        uses = []
        if k < 0.5:
            self.info.add("import_as")
            st = ["import", C(m), alias, wc]
            for attr in r.sample(["pub", "_priv", "condpub", "inloop", "blockpub", "mac", "_hidden",
                                  "loopv", "inner", "nothing", "condmac", "condmac"], 4):
                if attr == "condmac":
                    uses.append(["if", [[["test", ["attr", N(alias), attr], "defined", [], False],
                                         [["out", ["call", ["attr", N(alias), attr], [], []]]]]], [T("~")]])
                elif attr in ("mac",):
                    uses.append(["out", ["call", ["attr", N(alias), attr], [C(r.randint(2, 5))] if r.random() < .5 else [], []]])
                else:
                    uses.append(["out", F(["attr", N(alias), attr], "default", C("~"))])
                uses.append(T(";"))
            return [st] + uses
        self.info.add("from_import")
        want = r.sample(["pub", "inloop", "condpub", "mac", "nothing", "blockpub"], r.randint(1, 3))
        pairs = [[w, (f"A{self.next()}" if r.random() < 0.4 else None)] for w in want]
        st = ["from", C(m), pairs, wc]
        for w, a in pairs:
            nm = a or w
            if w == "mac":
                uses.append(["out", ["call", N(nm), [], []]])
            else:
                uses.append(["out", F(N(nm), "default", C("~"))])
            uses.append(T(";"))
        return [st] + uses

    def site(self, incs, mods, data, depth):
        r = self.r
        k = r.random()
        if k < 0.3:
            return [self.inc_stmt(incs, data)]
        if k < 0.5:
            return self.imp_stmts(mods, data)
        if depth >= 2:
            return [T(f"[m{self.next()}]")]
        if k < 0.62:
            self.info.add("in_loop")
            return [["for", ["lv"], ["list", [C(1), C(2)]], self.site(incs, mods, data, depth + 1), None, None, False]]
        if k < 0.72:
            self.info.add("in_with")
            return [["with", [["wv", C(30 + self.next())]], self.site(incs, mods, data, depth + 1)]]
        if k < 0.84:
            self.info.add("in_macro")
            nm = f"mm{self.next()}"
            return [["macro", nm, [["mv", C(5)]], self.site(incs, mods, data, depth + 1)],
                    ["out", ["call", N(nm), [], []]]]
        if k < 0.88 and depth == 0:
            # inside a block: no local-variable dump, only the context itself
            self.info.add("in_block")
            body = self.site(incs, mods, data, depth + 1)
            if r.random() < 0.6:
                # names assigned earlier IN the block are part of the active context of an include
                self.info.add("in_block_after_set")
                pre = [["set", self.pick(["p", "q", "g", "wv"]), C(40 + self.next())]]
                if r.random() < 0.3:
                    pre = [["if", [[C(True), pre]], None]]
                body = pre + [self.inc_stmt(incs, data) if r.random() < 0.6 else T("|")] + body
            return [["block", f"blk{self.next()}", body, False, False]]
        if k < 0.95:
            return [["set", self.pick(["p", "p", "q", "g"]), C(20 + self.next())]]
        return [T(f"[m{self.next()}]")]
