"""C27 helper: STRUCTURED edits of a template source.

The single-character edits of part (e) change the length or one code unit of
the source, which any checksum notices.  The edits here are the ones a WEAK
invalidation checksum (a length, a sum / xor of the code units, a
position-weighted sum, a digit sum, a hash of a prefix / suffix / sample of
the text, a hash of the sorted lines or of the multiset of characters, a
case-folded or whitespace-normalised hash ...) does not notice, written
without knowing which checksum is in use: the multiset of characters, the
length, the sum of the code units, the position-weighted sum, the xor, the
set of lines, the lower-cased text ... stay the same while the text -- and
what it renders -- changes.

``variants(base, quick)`` yields (klass, params, new_source); everything is
derived deterministically from ``base``.
"""
from __future__ import annotations

import itertools
import re


def _cls(ch):
    """Character class that a compensating change must stay in (so that the
    edited source is still the same kind of template: a digit stays a digit,
    a lower-case ASCII letter stays one)."""
    if "0" <= ch <= "9":
        return "digit"
    if "a" <= ch <= "z":
        return "lower"
    if "A" <= ch <= "Z":
        return "upper"
    return None


def _shift(ch, k):
    """ch moved by k code units if that stays inside its class, else None."""
    c = _cls(ch)
    if c is None:
        return None
    n = chr(ord(ch) + k)
    return n if _cls(n) == c else None


def _replace(base, changes):
    s = list(base)
    for pos, ch in changes:
        s[pos] = ch
    return "".join(s)


def swap_adjacent(base):
    for i in range(len(base) - 1):
        if base[i] != base[i + 1]:
            yield [i], base[:i] + base[i + 1] + base[i] + base[i + 2:]


def swap_distant(base, quick):
    n = len(base)
    for i in range(n):
        for d in ((2, 7, n // 2) if quick else (2, 3, 4, 5, 7, 11, n // 3, n // 2)):
            j = i + d
            if d >= 2 and j < n and base[i] != base[j]:
                yield [i, j], _replace(base, [(i, base[j]), (j, base[i])])


def double_swap(base, quick):
    """Two adjacent transpositions at once (mirrored pairs such as ab..ba ->
    ba..ab keep every position-weighted sum)."""
    n = len(base)
    for i in range(n - 1):
        if base[i] == base[i + 1]:
            continue
        for j in range(i + 2, n - 1):
            if base[j] == base[j + 1]:
                continue
            mirrored = (base[i], base[i + 1]) == (base[j + 1], base[j])
            if not mirrored and (j - i) not in ((2, 5) if quick else (2, 3, 4, 5, 9)):
                continue
            yield [i, j], _replace(base, [(i, base[i + 1]), (i + 1, base[i]),
                                          (j, base[j + 1]), (j + 1, base[j])])


def compensate2(base, quick):
    """+k on one character, -k on another (sum of the code units unchanged)."""
    pos = [i for i, ch in enumerate(base) if _cls(ch)]
    for a in range(len(pos)):
        for step in ((1, 2, 6) if quick else (1, 2, 3, 4, 6, 10)):
            if a + step >= len(pos):
                continue
            i, j = pos[a], pos[a + step]
            for k in ((1, -1) if quick else (1, -1, 2, -2, 3, -3)):
                x, y = _shift(base[i], k), _shift(base[j], -k)
                if x is not None and y is not None:
                    yield [i, j, k], _replace(base, [(i, x), (j, y)])


def compensate3(base, quick):
    """+k, -2k, +k on three equally spaced characters and +2k, -3k, +k on
    spacings 1:2 (sum AND position-weighted sum of the code units unchanged)."""
    n = len(base)
    for i in range(n):
        for d in (1, 2, 3) if quick else (1, 2, 3, 4, 5, 6):
            for shape in ("121", "231", "132"):
                if shape == "121":
                    p, w = (i, i + d, i + 2 * d), (1, -2, 1)
                elif shape == "231":
                    p, w = (i, i + d, i + 3 * d), (2, -3, 1)
                else:
                    p, w = (i, i + 2 * d, i + 3 * d), (1, -3, 2)
                if p[2] >= n or (shape != "121" and d > 2):
                    continue
                for k in (1, -1) if quick else (1, -1, 2, -2):
                    new = [_shift(base[q], k * f) for q, f in zip(p, w)]
                    if None not in new:
                        yield [shape, i, d, k], _replace(base, list(zip(p, new)))


def digit_rewrite(base, quick):
    """Every digit run of length 2..4 rewritten to the other digit strings of
    the same length with the same digit sum."""
    for m in re.finditer(r"[0-9]{2,4}", base):
        run = m.group()
        total = sum(map(int, run))
        alts = ["".join(t) for t in itertools.product("0123456789", repeat=len(run))
                if sum(map(int, t)) == total and "".join(t) != run]
        if len(alts) > (30 if quick else 90):
            stride = -(-len(alts) // (30 if quick else 90))
            alts = alts[::stride]
        for alt in alts:
            yield [m.start(), alt], base[:m.start()] + alt + base[m.end():]


def line_reorder(base):
    lines = base.splitlines(keepends=True)
    # contents are exchanged, the line terminators stay where they are (the last line may have none)
    bodies = [ln.rstrip("\r\n") for ln in lines]
    ends = [ln[len(b):] for ln, b in zip(lines, bodies)]
    for i in range(len(bodies)):
        for j in range(i + 1, len(bodies)):
            if bodies[i] != bodies[j]:
                nb = list(bodies)
                nb[i], nb[j] = nb[j], nb[i]
                yield ["swap", i, j], "".join(b + e for b, e in zip(nb, ends))
    if len(bodies) > 2:
        for r in range(1, len(bodies)):
            nb = bodies[r:] + bodies[:r]
            if nb != bodies:
                yield ["rotate", r], "".join(b + e for b, e in zip(nb, ends))
        nb = bodies[::-1]
        if nb != bodies:
            yield ["reverse"], "".join(b + e for b, e in zip(nb, ends))


_TAG = re.compile(r"\{\{.*?\}\}|\{%.*?%\}|\{#.*?#\}", re.S)


def tag_reorder(base):
    tags = list(_TAG.finditer(base))
    for a in range(len(tags)):
        for b in range(a + 1, len(tags)):
            ta, tb = tags[a], tags[b]
            if ta.group() == tb.group():
                continue
            yield [a, b], (base[:ta.start()] + tb.group() + base[ta.end():tb.start()] + ta.group()
                           + base[tb.end():])


def case_swap(base, quick):
    """Two letters change case: in opposite directions (sum of the code units
    unchanged, case-folded text unchanged) or in the same direction (xor
    unchanged, case-folded text unchanged)."""
    low = [i for i, ch in enumerate(base) if _cls(ch) == "lower"]
    up = [i for i, ch in enumerate(base) if _cls(ch) == "upper"]
    for i in up:
        near = sorted(low, key=lambda j: (abs(j - i), j))[: (3 if quick else 8)]
        for j in near:
            yield ["opposite", i, j], _replace(base, [(i, base[i].lower()), (j, base[j].upper())])
    for a in range(len(low)):
        for step in ((1, 4) if quick else (1, 2, 4, 9)):
            if a + step < len(low):
                i, j = low[a], low[a + step]
                yield ["same", i, j], _replace(base, [(i, base[i].upper()), (j, base[j].upper())])


def move_char(base, quick):
    """One character taken out and put back somewhere else."""
    n = len(base)
    for i in range(n):
        rest = base[:i] + base[i + 1:]
        for d in ((-3, 2, 3) if quick else (-7, -3, -2, 2, 3, 7)):
            j = i + d if d < 0 else i + d - 1     # index in ``rest``
            if 0 <= j <= len(rest):
                new = rest[:j] + base[i] + rest[j:]
                if new != base:
                    yield [i, d], new
        if not quick or i % 4 == 0:
            for j, tag in ((0, "start"), (len(rest), "end")):
                new = rest[:j] + base[i] + rest[j:]
                if new != base:
                    yield [i, tag], new


GENERATORS = {
    "swap-adjacent": lambda b, q: swap_adjacent(b),
    "swap-distant": swap_distant,
    "double-swap": double_swap,
    "compensate-2": compensate2,
    "compensate-3": compensate3,
    "digit-sum-rewrite": digit_rewrite,
    "line-reorder": lambda b, q: line_reorder(b),
    "tag-reorder": lambda b, q: tag_reorder(b),
    "case-swap": case_swap,
    "move-char": move_char,
}


def variants(base, quick):
    seen = {base}
    for klass, gen in GENERATORS.items():
        for params, new in gen(base, quick):
            if new in seen:
                continue
            seen.add(new)
            sub = klass
            if klass == "compensate-3":
                sub = f"{klass}:{'equally-spaced' if params[0] == '121' else 'unequally-spaced'}"
            elif klass == "case-swap":
                sub = f"{klass}:{params[0]}-direction"
            elif klass == "double-swap":
                i, j = params
                sub = klass + (":mirrored" if (base[i], base[i + 1]) == (base[j + 1], base[j])
                               else "")
            yield sub, params, new


def long_source_positions(n):
    """Positions of a long source at which one character is replaced: ends,
    middle, and both sides of the usual block sizes."""
    cand = [0, 1, n // 4, n // 2, n - 2, n - 1]
    for blk in (64, 256, 512, 1024, 2048, 4096, 8192):
        cand += [blk - 1, blk, blk + 1]
    return sorted({p for p in cand if 0 <= p < n})
