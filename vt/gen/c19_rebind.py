"""C19 workload tables: attribute targets whose BASE NAME is shadowed or rebound.

`{% set x.attr ... %}` is documented for namespace objects only; with x a
container from the context nothing may be stored into it.  Which object `x`
denotes depends on the scope the name is looked up in, so every assignment form
with an attribute target is crossed with constructs that bind the same name x
again - to a real namespace, to other things - in every position relative to
the statement:

  before          REBIND STATEMENT               (same scope, rebind first)
  inside          the rebind sits in the BODY of the block set
  inside-loop     the rebind sits in the body of the block set, inside a for
  after           STATEMENT REBIND               (the name is stored later in the frame)
  around          the statement sits inside the scope the rebind opens
                  (for / with / macro / call block bodies)
  same-statement  the tuple target of the statement itself also binds x

Only the before/after comparison of the context data is judged.
@X@ = the base name, @K@ = the attribute, @BODY@ = body slot of a block form,
INNER = the body of a scoped rebind.
"""
from __future__ import annotations

#: assignment forms with an attribute target; block forms have a @BODY@ slot
FORMS = {
    "set": "{% set @X@.@K@ = 1 %}",
    "set-rhs-reads-name": "{% set @X@.@K@ = @X@|length %}",
    "set-tuple-first": "{% set @X@.@K@, y = 1, 2 %}",
    "set-tuple-last": "{% set y, @X@.@K@ = 1, 2 %}",
    "set-two-attributes": "{% set @X@.@K@, @X@.j = 1, 2 %}",
    "block-set": "{% set @X@.@K@ %}@BODY@v{% endset %}",
    "block-set-text-first": "{% set @X@.@K@ %}v@BODY@{% endset %}",
    "block-set-filter": "{% set @X@.@K@ | upper %}@BODY@v{% endset %}",
    "block-set-body-reads-name": "{% set @X@.@K@ %}@BODY@{{ @X@|length }}{% endset %}",
    "block-set-nested-same-target": "{% set @X@.@K@ %}a{% set @X@.@K@ %}@BODY@v{% endset %}b{% endset %}",
    "block-set-in-block-set": "{% set outer %}a{% set @X@.@K@ %}@BODY@v{% endset %}b{% endset %}",
    "block-set-then-read": "{% set @X@.@K@ %}@BODY@v{% endset %}{{ @X@.@K@ }}",
}
#: forms whose own target list binds the base name too
SAME_STATEMENT_FORMS = {
    "set-tuple-name-then-attribute": "{% set @X@, @X@.@K@ = namespace(), 1 %}",
    "set-tuple-attribute-then-name": "{% set @X@.@K@, @X@ = 1, namespace() %}",
    "set-nested-tuple-name-and-attribute": "{% set (@X@, (y, @X@.@K@)) = (namespace(), (1, 2)) %}",
}
#: constructs that bind the base name again.  (text, scoped): scoped ones have an
#: INNER slot (the scope they open)
WAYS = {
    "set-namespace": ("{% set @X@ = namespace() %}", False),
    "set-namespace-with-data": ("{% set @X@ = namespace(a=0, k=0, j=0) %}", False),
    "set-in-if": ("{% if true %}{% set @X@ = namespace() %}{% endif %}", False),
    "set-tuple": ("{% set @X@, rb = namespace(), 1 %}", False),
    "set-twice": ("{% set @X@ = 1 %}{% set @X@ = namespace() %}", False),
    "set-other-container": ("{% set @X@ = alist %}", False),
    "set-self": ("{% set @X@ = @X@ %}", False),
    "block-set-name": ("{% set @X@ %}txt{% endset %}", False),
    "same-target-block-set": ("{% set @X@.@K@ %}w{% endset %}", False),
    "import-as": ("{% import 'alib' as @X@ %}", False),
    "from-import-as": ("{% from 'alib' import am as @X@ %}", False),
    "macro-of-that-name": ("{% macro @X@() %}{% endmacro %}", False),
    "for-target": ("{% for @X@ in [namespace()] %}INNER{% endfor %}", True),
    "for-tuple-target": ("{% for rb, @X@ in [(1, namespace(a=0))] %}INNER{% endfor %}", True),
    "for-target-then-set": ("{% for @X@ in [namespace()] %}INNER{% endfor %}{% set @X@ = namespace() %}", True),
    "for-else": ("{% for @X@ in [] %}{% else %}INNER{% endfor %}", True),
    "with": ("{% with @X@ = namespace() %}INNER{% endwith %}", True),
    "with-two": ("{% with rb = 1, @X@ = namespace(a=rb) %}INNER{% endwith %}", True),
    "macro-parameter": ("{% macro rm(@X@) %}INNER{% endmacro %}{{ rm(namespace()) }}", True),
    "macro-default-parameter": ("{% macro rm(@X@=namespace()) %}INNER{% endmacro %}{{ rm() }}", True),
    "call-block-parameter": ("{% macro rc() %}{{ caller(namespace()) }}{% endmacro %}"
                             "{% call(@X@) rc() %}INNER{% endcall %}", True),
}
POSITIONS = ["before", "inside", "inside-loop", "after", "around", "same-statement"]
#: what a scoped rebind holds when the statement is not inside it
INNER_READ = "{{ @X@.a }}"


def sources():
    """-> [(form, way, position, text with @X@ / @K@)]"""
    out = []
    for form, stmt in FORMS.items():
        plain = stmt.replace("@BODY@", "")
        for way, (text, scoped) in WAYS.items():
            closed = text.replace("INNER", INNER_READ)
            out.append((form, way, "before", closed + plain))
            out.append((form, way, "after", plain + closed))
            if "@BODY@" in stmt:
                out.append((form, way, "inside", stmt.replace("@BODY@", closed)))
                out.append((form, way, "inside-loop",
                            stmt.replace("@BODY@", "{% for ri in [1, 2] %}" + closed + "{% endfor %}")))
            if scoped:
                out.append((form, way, "around", text.replace("INNER", plain)))
    for form, stmt in SAME_STATEMENT_FORMS.items():
        out.append((form, "own-target-list", "same-statement", stmt))
    return out
