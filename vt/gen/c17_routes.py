"""C17 workload tables for ENGINE-OBJECT routes: the ways a template can name
an attribute of an object that the engine itself (not the render data) puts
in front of it.

 * receivers: the module of an imported template ({% import X as m %}, X a
   loader name or a Template object from the context, with / without context,
   at top level / in a block / macro / loop / child template), macro objects
   (local, imported, `caller`), `self`, block references (`self.blk`, `super`),
   `loop` and its bound methods, namespace / cycler / joiner objects,
   `varargs` / `kwargs`, the default global function `lipsum` and the default
   global classes, an undefined value, a Template object.  They are plugged
   into the SAME access-form x consumption-form grammar as every other
   receiver (dot, subscript, |attr, attribute arguments, format fields ...).
 * {% from X import NAME [as ALIAS] %}: the statement names an attribute of
   the imported template's module directly; as access forms (prelude binds
   the alias, the expression is the alias / the name).
 * positions: the access written in an included template, in the macro of an
   imported template, in a block of a child template (wrap texts with "@@":
   main template @@ auxiliary template 'vt_aux').

Only PRIVATE / INTERNAL names are generated for engine receivers: names that
start with an underscore (discovered generically from an instance the harness
grabs in an unsandboxed render: dir(), the instance dict, the type) and the
documented internal names of functions / methods / classes.
"""
from __future__ import annotations

#: static templates every C17 environment can load
HELPERS = {
    "helpers": ("{% macro hello(n='w') %}hi {{ n }}{% endmacro %}{% set public = 'PUBMOD' %}"
                "{% macro _pm() %}TRACERLEAK-pm{% endmacro %}{% set _pv = 'TRACERLEAK-pv' %}"),
    "vt_parent": "{% block blk %}parent{% endblock %}",
    "vt_inc_control": "inc-{{ hello is defined }}",
}
AUX_NAME = "vt_aux"

#: kind -> base -> (wrapper with BODY hole, receiver expression, None,
#:                  template-source expression for {% from SRC import %} or None)
ENGINE_BASES = {
    "eng_module": {
        "import_str": ("{% import 'helpers' as b %}BODY", "b", None, "'helpers'"),
        "import_tobj": ("{% import t as b %}BODY", "b", None, "t"),
        "import_with_context": ("{% import 'helpers' as b with context %}BODY", "b", None, "'helpers'"),
        "import_without_context": ("{% import t as b without context %}BODY", "b", None, "t"),
        "import_in_block": ("{% block blk %}{% import 'helpers' as b %}BODY{% endblock %}", "b", None,
                            "'helpers'"),
        "import_in_macro": ("{% macro wm() %}{% import 'helpers' as b %}BODY{% endmacro %}{{ wm() }}",
                            "b", None, "'helpers'"),
        "import_in_loop": ("{% for q in [1] %}{% import t as b %}BODY{% endfor %}", "b", None, "t"),
        "import_in_child": ("{% extends 'vt_parent' %}{% block blk %}{% import 'helpers' as b %}"
                            "BODY{% endblock %}", "b", None, "'helpers'"),
        "import_in_include": ("{% include 'vt_aux' %}@@{% import 'helpers' as b %}BODY", "b", None,
                              "'helpers'"),
    },
    "eng_macro": {
        "local": ("{% macro b(x=1) %}m{% endmacro %}BODY", "b", None, None),
        "imported": ("{% from 'helpers' import hello as b %}BODY", "b", None, None),
        "imported_tobj": ("{% from t import hello as b with context %}BODY", "b", None, None),
        "module_attr": ("{% import 'helpers' as hm %}BODY", "hm.hello", None, None),
        "caller": ("{% macro cm() %}BODY{% endmacro %}{% call cm() %}x{% endcall %}", "caller", None, None),
        "caller_args": ("{% macro cm() %}BODY{% endmacro %}{% call(z) cm() %}x{% endcall %}", "caller",
                        None, None),
    },
    "eng_self": {
        "top": ("BODY", "self", None, None),
        "in_block": ("{% block blk %}BODY{% endblock %}", "self", None, None),
        "in_child": ("{% extends 'vt_parent' %}{% block blk %}BODY{% endblock %}", "self", None, None),
        "in_macro": ("{% macro wm() %}BODY{% endmacro %}{{ wm() }}", "self", None, None),
    },
    "eng_blockref": {
        "self_block": ("{% block blk %}{% endblock %}BODY", "self.blk", None, None),
        "self_block_item": ("{% block blk %}{% endblock %}BODY", "self['blk']", None, None),
        "super": ("{% extends 'vt_parent' %}{% block blk %}BODY{% endblock %}", "super", None, None),
        "super_alias": ("{% extends 'vt_parent' %}{% block blk %}{% set b = super %}BODY{% endblock %}",
                        "b", None, None),
    },
    "eng_loop": {
        "for": ("{% for q in [1, 2] %}BODY{% endfor %}", "loop", None, None),
        "for_recursive": ("{% for q in [1] recursive %}BODY{% endfor %}", "loop", None, None),
        "for_filtered": ("{% for q in [0, 1] if q %}BODY{% endfor %}", "loop", None, None),
        "for_context_iterable": ("{% for q in seq %}BODY{% endfor %}", "loop", None, None),
        "outer_alias": ("{% for q in [1] %}{% set b = loop %}{% for w in [1] %}BODY{% endfor %}{% endfor %}",
                        "b", None, None),
        "macro_arg": ("{% macro lm(b) %}BODY{% endmacro %}{% for q in [1] %}{{ lm(loop) }}{% endfor %}",
                      "b", None, None),
    },
    "eng_loop_method": {
        "cycle": ("{% for q in [1] %}BODY{% endfor %}", "loop.cycle", None, None),
        "changed": ("{% for q in [1] %}BODY{% endfor %}", "loop.changed", None, None),
    },
    "eng_namespace": {
        "set": ("{% set b = namespace(a=1) %}BODY", "b", None, None),
        "inline": ("BODY", "namespace(a=1)", None, None),
    },
    "eng_cycler": {
        "set": ("{% set b = cycler(1, 2) %}BODY", "b", None, None),
        "method": ("{% set cy = cycler(1, 2) %}BODY", "cy.next", None, None),
    },
    "eng_joiner": {
        "set": ("{% set b = joiner(',') %}BODY", "b", None, None),
    },
    "eng_varargs": {
        "macro": ("{% macro vm() %}BODY{% endmacro %}{{ vm(1, 2) }}", "varargs", None, None),
    },
    "eng_kwargs": {
        "macro": ("{% macro vm() %}BODY{% endmacro %}{{ vm(k=2) }}", "kwargs", None, None),
    },
    "eng_global_function": {
        "lipsum": ("BODY", "lipsum", None, None),
    },
    "eng_global_class": {
        # (not `dict`: subscripting a generic class builds a types.GenericAlias,
        # which is item access, not attribute access)
        "range": ("BODY", "range", None, None),
        "cycler": ("BODY", "cycler", None, None),
        "joiner": ("BODY", "joiner", None, None),
        "namespace": ("BODY", "namespace", None, None),
    },
    "eng_undefined": {
        "missing_name": ("BODY", "nosuch", None, None),
        "missing_attr": ("BODY", "seq.nosuch", None, None),
    },
    "eng_template": {
        "context": ("BODY", "t", None, None),
    },
}
ENGINE_KINDS = list(ENGINE_BASES)
#: names added whatever the grabbed instance offers: the private macro and the
#: private variable of the helper template (documented as not importable)
EXTRA_NAMES = {"eng_module": ["_pm", "_pv"]}

#: {% from SRC import N ... %} as access forms: (prelude, expression, valued)
FROM_IMPORT_ACCESS = {
    "from_import_as": ("{% from SRC import N as fc %}", "fc", True),
    "from_import_as_with_context": ("{% from SRC import N as fc with context %}", "fc", True),
    "from_import_as_without_context": ("{% from SRC import N as fc without context %}", "fc", True),
    "from_import_as_first": ("{% from SRC import N as fc, hello %}", "fc", True),
    "from_import_as_last": ("{% from SRC import hello, N as fc %}", "fc", True),
    "from_import_as_last_with_context": ("{% from SRC import hello as hh, N as fc with context %}", "fc",
                                         True),
    "from_import_as_trailing_comma": ("{% from SRC import N as fc, %}", "fc", True),
    "from_import_as_twice": ("{% from SRC import N as fc, N as fd %}", "fd", True),
    "from_import_as_private_alias": ("{% from SRC import N as _fc %}", "_fc", True),
    "from_import_plain": ("{% from SRC import N %}", "N", True),
    "from_import_plain_last": ("{% from SRC import hello, N %}", "N", True),
    "from_import_plain_with_context": ("{% from SRC import N with context %}", "N", True),
}

#: positions for data-object receivers: main template @@ auxiliary template
PROBE_POSITION_BASES = {
    "included": ("{% include 'vt_aux' %}@@BODY", "p.child", ("p", "child.")),
    "included_loop_alias": ("{% for b in p.kids %}{% include 'vt_aux' %}{% endfor %}@@BODY", "b", None),
    "imported_macro_param": ("{% from 'vt_aux' import am with context %}{{ am(p.child) }}"
                             "@@{% macro am(b) %}BODY{% endmacro %}", "b", None),
    "imported_macro_context": ("{% import 'vt_aux' as am with context %}{{ am.go() }}"
                               "@@{% macro go() %}BODY{% endmacro %}", "p", None),
    "child_block": ("{% extends 'vt_parent' %}{% block blk %}BODY{% endblock %}", "p.child",
                    ("p", "child.")),
    "call_block": ("{% macro cm() %}{{ caller(p.child) }}{% endmacro %}{% call(b) cm() %}BODY{% endcall %}",
                   "b", None),
}
REAL_POSITION_BASES = {
    "included": ("{% include 'vt_aux' %}@@BODY", "r", None),
    "imported_macro_param": ("{% from 'vt_aux' import am with context %}{{ am(r) }}"
                             "@@{% macro am(b) %}BODY{% endmacro %}", "b", None),
    "child_block": ("{% extends 'vt_parent' %}{% block blk %}BODY{% endblock %}", "r", None),
}

#: public use of every route (monitor self-test: the routes are alive and the
#: sandbox does not over-block what the docs allow); template, expected output
ROUTE_CONTROLS = [
    ("{% import 'helpers' as m %}{{ m.hello('a') }}|{{ m.public }}|"
     "{% from 'helpers' import hello as h, public %}{{ h('b') }}|{{ public }}|"
     "{% from t import hello as h2 with context %}{{ h2('c') }}|{{ h.name }}|"
     "{% import t as m2 without context %}{{ m2['public'] }}",
     "hi a|PUBMOD|hi b|PUBMOD|hi c|hello|PUBMOD"),
    ("{% for q in [1, 2] %}{{ loop.index }}{{ loop.cycle('x', 'y') }}{% endfor %}|"
     "{% set ns = namespace(a=1) %}{{ ns.a }}|{% set c = cycler(1, 2) %}{{ c.next() }}{{ c.current }}|"
     "{% set j = joiner('-') %}{{ j() }}{{ j() }}|"
     "{% macro vm() %}{{ varargs|length }}{{ kwargs.k }}{% endmacro %}{{ vm(1, k=2) }}|"
     "{% macro cm() %}{{ caller() }}{% endmacro %}{% call cm() %}in{% endcall %}|"
     "{% block blk %}B{% endblock %}{{ self.blk() }}|{{ range(3)|list }}|"
     "{% set hello = 1 %}{% include 'vt_inc_control' %}",
     "1x2y|1|12|-|12|in|BB|[0, 1, 2]|inc-True"),
    ("{% extends 'vt_parent' %}{% block blk %}{{ super() }}+{{ super.name }}{% endblock %}",
     "parent+blk"),
]
