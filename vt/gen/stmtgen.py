"""Random statement trees over a small pool of variable names (C03 family).

Values of pool variables are ints, strings produced by block-set, or
undefined; all arithmetic goes through `x|default(k)|int` so that most
programs render without raising while shadowing, conditional assignment,
read-before-write and closure capture stay frequent.
"""
from __future__ import annotations

POOL = ["a", "b", "c", "d", "e"]
LISTS = ["L1", "L2"]


def C(v):
    return ["const", v]


def N(n):
    return ["name", n]


def F(e, name, *args):
    return ["filter", e, name, list(args), []]


def safe_int(n, k=0):
    return F(F(N(n), "default", C(k)), "int")


class Opts:
    def __init__(self, **kw):
        self.macros = True
        self.callblocks = True
        self.filterblocks = True
        self.setblocks = True
        self.setblockfilters = True
        self.specialargs = True
        self.namespaces = True
        self.loopcontrols = True
        self.recursive = True
        self.with_ = True
        self.loopvar = True
        self.fragfilters = False   # apply escaping-neutral filters / `~` to rendered fragments
        self.max_stmts = 25
        self.max_depth = 4
        self.pool = list(POOL)
        self.__dict__.update(kw)


class SGen:
    def __init__(self, rng, opts=None):
        self.r = rng
        self.o = opts or Opts()
        self.mark = 0
        self.budget = 0
        self.nmacro = 0
        self.feat = set()

    # ------------------------------------------------------------ utils
    def pick(self, xs):
        return xs[self.r.randrange(len(xs))]

    def pv(self):
        return self.pick(self.o.pool)

    def marker(self):
        self.mark += 1
        return ["text", f"[t{self.mark}]"]

    # ------------------------------------------------------ expressions
    def int_expr(self, st):
        r = self.r
        k = r.random()
        if k < 0.25:
            return C(r.randint(0, 9))
        if k < 0.55:
            return ["bin", self.pick(["+", "+", "*", "-"]), safe_int(self.pv(), r.randint(0, 3)), C(r.randint(1, 4))]
        if k < 0.75:
            return ["bin", "+", safe_int(self.pv()), safe_int(self.pv(), 1)]
        if k < 0.85 and st["loop"] and self.o.loopvar:
            return ["attr", N("loop"), self.pick(["index", "index0", "revindex", "length"])]
        if k < 0.93 and st["ns"]:
            return ["bin", "+", ["attr", N("ns"), self.pick(["v", "w"])], C(r.randint(1, 3))]
        return safe_int(self.pv(), r.randint(0, 5))

    def frag(self, e):
        """Pass a rendered fragment (macro result, caller(), set-block value)
        through an escaping-neutral filter or a `~` with a plain value in front."""
        r = self.r
        if not self.o.fragfilters or r.random() < 0.4:
            return e
        k = r.random()
        if k < 0.38:
            return F(e, self.pick(["lower", "string", "trim", "default"]))
        if k < 0.45:
            # the same neutral filters with explicit (rarely given) arguments
            return self.pick([["filter", e, "trim", [C(" \n")], []], ["filter", e, "trim", [], [["chars", C(" ")]]],
                              ["filter", e, "default", [C("-"), C(True)], []],
                              ["filter", e, "center", [C(1)], []], ["filter", e, "indent", [C(0)], []]])
        if k < 0.66:
            return ["bin", "~", N(self.pv()), e]
        if k < 0.73:
            return ["bin", "~", C("&amp;<"), e]
        if k < 0.8:
            # a plain subject with markup characters, the fragment as the replacement
            return ["filter", C("<Z>&amp;"), "replace", [C("Z"), e], []]
        if k < 0.87:
            # the fragment as the DELIMITER of a join over plain items
            self.feat.add("fragment_as_join_delimiter")
            return ["filter", ["list", [N(self.pv()), C("<i>"), C("&amp;")]], "join", [e], []]
        if k < 0.94:
            # eval-context filters applied BY NAME through map: they must see the escaping
            # mode that is in force where the expression is evaluated
            self.feat.add("evalctx_filter_via_map")
            inner = ["filter", ["list", [["list", [e, C("<x>")]], ["list", [C("&amp;y"), N(self.pv())]]]],
                     "map", [C("join"), C("-")] if r.random() < 0.6 else [C("join")], []]
            return ["filter", inner, "join", [C(",")], []]
        return ["bin", "~", F(e, "lower"), C("<t>")]

    def out_expr(self, st):
        r = self.r
        if self.o.fragfilters and r.random() < 0.2:
            return self.frag(N(self.pv()))
        k = r.random()
        if k < 0.45:
            return N(self.pv())
        if k < 0.6:
            return F(N(self.pv()), "default", C("-"))
        if k < 0.7:
            return ["test", N(self.pv()), "defined", [], False]
        if k < 0.8:
            return ["bin", "~", ["bin", "~", C("<"), N(self.pv())], C(">")]
        if k < 0.88 and st["loop"] and self.o.loopvar:
            return ["attr", N("loop"), self.pick(["index", "first", "last", "length", "revindex0"])]
        if k < 0.94 and st["ns"]:
            return ["attr", N("ns"), self.pick(["v", "w"])]
        return self.int_expr(st)

    def cond_expr(self, st):
        r = self.r
        k = r.random()
        if k < 0.3:
            return ["test", N(self.pv()), "defined", [], r.random() < .3]
        if k < 0.6:
            return ["cmp", safe_int(self.pv()), [[self.pick([">", "<", "==", ">="]), C(r.randint(0, 4))]]]
        if k < 0.75:
            return ["test", safe_int(self.pv(), 1), self.pick(["odd", "even"]), [], False]
        if k < 0.85:
            return N(self.pv())
        if k < 0.92:
            return ["un", "not", N(self.pv())]
        return [self.pick(["and", "or"]), self.cond_expr(st), self.cond_expr(st)]

    def iter_expr(self, st):
        r = self.r
        k = r.random()
        if k < 0.4:
            return ["call", N("range"), [C(r.randint(0, 3))], []]
        if k < 0.7:
            return N(self.pick(LISTS))
        if k < 0.9:
            return ["list", [C(r.randint(0, 9)) for _ in range(r.randint(0, 3))]]
        return ["call", N("range"), [safe_int(self.pv(), 2)], []] if r.random() < .5 else N("U9")

    # ------------------------------------------------------- statements
    def program(self):
        self.budget = self.r.randint(6, self.o.max_stmts)
        st = {"loop": False, "flow": False, "macros": [], "ns": False, "depth": 0}
        body = []
        if self.o.namespaces and self.r.random() < 0.35:
            body.append(["set", "ns", ["call", N("namespace"), [], [["v", C(0)], ["w", C(1)]]]])
            st["ns"] = True
            self.feat.add("namespace")
        body += self.block(st, self.r.randint(3, 8))
        return body

    def block(self, st, n):
        out = []
        for _ in range(n):
            if self.budget <= 0:
                break
            out.extend(self.stmt(st))
        if not out:
            out.append(self.marker())
        return out

    def sub(self, st, **kw):
        s = dict(st)
        s["macros"] = list(st["macros"])
        s["depth"] = st["depth"] + 1
        s.update(kw)
        return s

    def stmt(self, st):
        r = self.r
        self.budget -= 1
        deep = st["depth"] >= self.o.max_depth
        k = r.random()
        if k < 0.14:
            return [self.marker()]
        if k < 0.32:
            return [["out", self.out_expr(st)]]
        if k < 0.47:
            return [["set", self.pv(), self.int_expr(st)]]
        if deep:
            return [["out", self.out_expr(st)]]
        if k < 0.57:
            branches = [[self.cond_expr(st), self.block(self.sub(st), r.randint(1, 3))]]
            if r.random() < 0.3:
                branches.append([self.cond_expr(st), self.block(self.sub(st), r.randint(1, 2))])
            els = self.block(self.sub(st), r.randint(1, 2)) if r.random() < 0.5 else None
            self.feat.add("if")
            return [["if", branches, els]]
        if k < 0.70:
            return [self.for_stmt(st)]
        if k < 0.76 and self.o.with_:
            binds = [[self.pv(), self.int_expr(st)] for _ in range(r.randint(1, 2))]
            if len(binds) == 2 and binds[0][0] == binds[1][0]:
                binds.pop()
            self.feat.add("with")
            return [["with", binds, self.block(self.sub(st), r.randint(1, 3))]]
        if k < 0.84 and self.o.macros:
            return self.macro_stmt(st)
        if k < 0.90 and st["macros"]:
            return self.call_stmt(st)
        if k < 0.93 and self.o.setblocks:
            self.feat.add("setblock")
            sb = ["setblock", self.pv(), self.block(self.sub(st, flow=False, loop=st["loop"]), r.randint(1, 2))]
            if self.o.setblockfilters and r.random() < 0.35:
                # {% set x | f %}: filters that return text for text (list|join returns a PLAIN str)
                self.feat.add("setblock_filter")
                sb.append(self.pick([["trim"], ["string"], ["lower"], ["list", "join"], ["trim", "list", "join"]]))
            return [sb]
        if k < 0.95 and self.o.filterblocks:
            self.feat.add("filterblock")
            return [["filterblock", "upper", [], self.block(self.sub(st, flow=False), r.randint(1, 2))]]
        if k < 0.98 and st["ns"]:
            self.feat.add("setns")
            return [["setns", "ns", self.pick(["v", "w"]), self.int_expr(st)]]
        if st["flow"] and self.o.loopcontrols:
            self.feat.add("loopcontrol")
            return [["if", [[self.cond_expr(st), [[self.pick(["break", "continue"])]]]], None]]
        return [["out", self.out_expr(st)]]

    def for_stmt(self, st):
        r = self.r
        self.feat.add("for")
        if self.o.recursive and r.random() < 0.12:
            self.feat.add("recursive")
            v = self.pv()
            inner = self.sub(st, loop=True, flow=False)
            body = [["text", "("], ["out", ["attr", N(v), "v"]]]
            body += self.block(inner, r.randint(0, 2))
            body += [["if", [[["attr", N(v), "c"], [["out", ["call", N("loop"), [["attr", N(v), "c"]], []]]]]], None],
                     ["out", ["attr", N("loop"), self.pick(["depth", "depth0", "index"])]], ["text", ")"]]
            return ["for", [v], N("TREE"), body, None, None, True]
        v = self.pv()
        filt = None
        if r.random() < 0.3:
            filt = self.pick([
                ["test", N(v), self.pick(["odd", "even"]), [], False],
                ["cmp", N(v), [[self.pick([">", "<", "!="]), safe_int(self.pv(), 1)]]],
            ])
            self.feat.add("loopfilter")
        body = self.block(self.sub(st, loop=True, flow=True), r.randint(1, 4))
        if self.o.loopvar and r.random() < 0.2:
            # look ahead first (loop.last), then ask for the length: on an iterable without
            # len() (filtered loops) the engine has already pulled one item out of the iterator
            self.feat.add("loop_lookahead_then_length")
            body = [["out", ["attr", N("loop"), "last"]],
                    ["out", ["attr", N("loop"), self.pick(["length", "revindex", "revindex0"])]]] + body
        els = None
        if r.random() < 0.35:
            els = self.block(self.sub(st, loop=False, flow=False), r.randint(1, 2))
            self.feat.add("forelse")
        return ["for", [v], self.iter_expr(st), body, els, filt, False]

    def macro_stmt(self, st):
        r = self.r
        self.nmacro += 1
        name = f"m{self.nmacro}"
        params = []
        pnames = r.sample(self.o.pool, r.randint(0, 2))
        for i, p in enumerate(pnames):
            d = None
            if r.random() < 0.5:
                if r.random() < 0.5:
                    d = C(r.randint(0, 9))
                else:
                    # a default may mention earlier parameters and outer names,
                    # never the parameter itself or a later one (undocumented)
                    saved = self.o.pool
                    self.o.pool = [n for n in saved if n not in pnames[i:]]
                    try:
                        d = self.int_expr({**st, "loop": False})
                    finally:
                        self.o.pool = saved
            params.append([p, d])
        # defaults only trailing
        seen_default = False
        for p in params:
            if p[1] is not None:
                seen_default = True
            elif seen_default:
                p[1] = C(0)
        inner = self.sub(st, loop=False, flow=False)
        body = self.block(inner, r.randint(1, 3))
        uses_caller = False
        if self.o.callblocks and r.random() < 0.3:
            uses_caller = True
            arg = [self.int_expr(inner)] if r.random() < 0.4 else []
            callit = ["out", self.frag(["call", N("caller"), arg, []])]
            if r.random() < 0.7:
                callit = ["if", [[["test", N("caller"), "defined", [], False], [callit]]], None]
            body.insert(r.randint(0, len(body)), callit)
            self.feat.add("caller")
        extra = False
        if self.o.specialargs and r.random() < 0.2:
            # the body reads BOTH implicit names: extra positional and keyword arguments
            extra = True
            self.feat.add("varargs_and_kwargs")
            body.append(["out", ["filter", N("varargs"), "join", [C(",")], []]])
            body.append(["text", "/"])
            body.append(["out", ["filter", ["filter", N("kwargs"), "list", [], []], "join", [C(",")], []]])
        st["macros"].append((name, [p for p, _ in params], uses_caller, bool(uses_caller and arg), extra))
        self.feat.add("macro")
        return [["macro", name, params, body]]

    def call_args(self, st, pnames):
        r = self.r
        n = r.randint(0, len(pnames))
        args = [self.int_expr(st) for _ in range(n)]
        kw = []
        for p in pnames[n:]:
            if r.random() < 0.4:
                kw.append([p, self.int_expr(st)])
        return args, kw

    def call_stmt(self, st):
        r = self.r
        name, pnames, uses_caller, caller_arg, extra = self.pick(st["macros"])
        args, kw = self.call_args(st, pnames)
        if extra:
            if len(args) == len(pnames):
                args += [self.int_expr(st) for _ in range(r.randint(0, 2))]
            kw += [[k, C(r.randint(0, 9))] for k in r.sample(["zk", "yk"], r.randint(0, 2))]
        call = ["call", N(name), args, kw]
        self.feat.add("macrocall")
        if uses_caller and self.o.callblocks and r.random() < 0.7:
            cparams = [[self.pv(), None]] if caller_arg else []
            body = self.block(self.sub(st, loop=False, flow=False), r.randint(1, 2))
            self.feat.add("callblock")
            return [["callblock", cparams, call, body]]
        return [["out", self.frag(call)]]


def make_data(rng, pool=POOL):
    recipe = {}
    for n in pool:
        if rng.random() < 0.45:
            recipe[n] = rng.randint(0, 9)
    recipe["L1"] = [rng.randint(0, 9) for _ in range(rng.randint(0, 4))]
    recipe["L2"] = [rng.randint(0, 5) for _ in range(rng.randint(1, 3))]

    def tree(d):
        return [{"v": rng.randint(0, 9), "c": tree(d - 1) if d > 0 and rng.random() < .6 else []}
                for _ in range(rng.randint(1, 2))]

    recipe["TREE"] = tree(2)
    return recipe


# ------------------------------------------------------------- renaming
def rename_expr(e, mp):
    if e is None:
        return None
    k = e[0]
    if k == "name":
        return ["name", mp.get(e[1], e[1])]
    if k == "const":
        return e
    if k == "un":
        return ["un", e[1], rename_expr(e[2], mp)]
    if k == "bin":
        return ["bin", e[1], rename_expr(e[2], mp), rename_expr(e[3], mp)]
    if k == "cmp":
        return ["cmp", rename_expr(e[1], mp), [[op, rename_expr(x, mp)] for op, x in e[2]]]
    if k in ("and", "or"):
        return [k, rename_expr(e[1], mp), rename_expr(e[2], mp)]
    if k == "cond":
        return ["cond", rename_expr(e[1], mp), rename_expr(e[2], mp), rename_expr(e[3], mp)]
    if k == "attr":
        return ["attr", rename_expr(e[1], mp), e[2]]
    if k == "item":
        return ["item", rename_expr(e[1], mp), rename_expr(e[2], mp)]
    if k == "slice":
        return ["slice"] + [rename_expr(x, mp) for x in e[1:5]]
    if k in ("list", "tuple"):
        return [k, [rename_expr(x, mp) for x in e[1]]]
    if k == "dict":
        return ["dict", [[rename_expr(a, mp), rename_expr(b, mp)] for a, b in e[1]]]
    if k == "call":
        # keyword names of macro calls are parameter names: renamed too
        return ["call", rename_expr(e[1], mp), [rename_expr(x, mp) for x in e[2]],
                [[mp.get(n, n), rename_expr(x, mp)] for n, x in e[3]]]
    if k == "filter":
        return ["filter", rename_expr(e[1], mp), e[2], [rename_expr(x, mp) for x in e[3]],
                [[n, rename_expr(x, mp)] for n, x in e[4]]]
    if k == "test":
        return ["test", rename_expr(e[1], mp), e[2], [rename_expr(x, mp) for x in e[3]], e[4]]
    raise ValueError(k)


def rename_body(body, mp):
    out = []
    R = lambda e: rename_expr(e, mp)
    B = lambda b: None if b is None else rename_body(b, mp)
    g = lambda n: mp.get(n, n)
    for s in body:
        k = s[0]
        if k in ("text", "break", "continue", "comment", "raw"):
            out.append(s)
        elif k == "out":
            out.append(["out", R(s[1])])
        elif k == "if":
            out.append(["if", [[R(c), B(b)] for c, b in s[1]], B(s[2])])
        elif k == "for":
            out.append(["for", [g(t) for t in s[1]], R(s[2]), B(s[3]), B(s[4]), R(s[5]), s[6]])
        elif k == "set":
            out.append(["set", g(s[1]), R(s[2])])
        elif k == "setns":
            out.append(["setns", g(s[1]), s[2], R(s[3])])
        elif k == "setblock":
            out.append(["setblock", g(s[1]), B(s[2])] + list(s[3:]))
        elif k == "with":
            out.append(["with", [[g(n), R(v)] for n, v in s[1]], B(s[2])])
        elif k == "macro":
            out.append(["macro", g(s[1]), [[g(p), R(d)] for p, d in s[2]], B(s[3])])
        elif k == "callblock":
            out.append(["callblock", [[g(p), R(d)] for p, d in s[1]], R(s[2]), B(s[3])])
        elif k == "filterblock":
            out.append(["filterblock", s[1], [R(a) for a in s[2]], B(s[3])])
        elif k == "block":
            out.append(["block", s[1], B(s[2]), s[3], s[4]])
        else:
            out.append(s)
    return out


def features(body):
    """Static shape features used for non-vacuity counters."""
    from vt.gen import jast

    feats = set()

    def visit(body, bound, depth, in_macro):
        assigned_here = set()
        for s in body:
            k = s[0]
            reads = set()
            for e in jast.stmt_exprs(s):
                jast.walk_expr(e, lambda x: reads.add(x[1]) if x[0] == "name" else None)
            for n in reads:
                if n in POOL:
                    if n in bound and depth > 0 and n not in assigned_here:
                        feats.add("read_outer_in_inner")
                    if in_macro and n in bound:
                        feats.add("closure_capture")
            if k == "set":
                if s[1] in bound and s[1] not in assigned_here and depth > 0:
                    feats.add("shadowing")
                assigned_here.add(s[1])
            if k == "if":
                for _, b in s[1]:
                    for x in b:
                        if x[0] == "set":
                            feats.add("conditional_assignment")
                for _, b in s[1]:
                    visit(b, bound | assigned_here, depth, in_macro)
                if s[2]:
                    visit(s[2], bound | assigned_here, depth, in_macro)
            elif k == "for":
                if s[1][0] in bound | assigned_here:
                    feats.add("shadowing")
                visit(s[3], bound | assigned_here | set(s[1]), depth + 1, in_macro)
                if s[4]:
                    feats.add("loop_else")
                    visit(s[4], bound | assigned_here, depth + 1, in_macro)
            elif k == "with":
                visit(s[2], bound | assigned_here | {n for n, _ in s[1]}, depth + 1, in_macro)
            elif k in ("macro", "callblock"):
                ps = {p for p, _ in (s[2] if k == "macro" else s[1])}
                if ps & (bound | assigned_here):
                    feats.add("shadowing")
                visit(s[3], bound | assigned_here | ps, depth + 1, True)
            elif k in ("setblock",):
                visit(s[2], bound | assigned_here, depth + 1, in_macro)
                assigned_here.add(s[1])
            elif k == "filterblock":
                visit(s[3], bound | assigned_here, depth + 1, in_macro)
            elif k == "setns":
                feats.add("namespace_write")

    visit(body, set(), 0, False)
    return feats
