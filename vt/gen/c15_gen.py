"""C15 case generator: typed random template IR (see c15_ir) whose data strings
and string literals carry nonce-surrounded HTML metacharacters.

Typing discipline: gen_S -> string-ish expr, gen_L -> list of strings, gen_D
-> dict of strings, gen_LD -> list of dicts.  Every generated expr comes with a
`struct` flag: True when its value contains markup legitimately produced by
urlize / xmlattr / tojson; such values are only fed to structure-preserving
consumers (output, ~, +, indent, join element, captures), because cutting or
re-casing documented markup is the template author's doing, not a leak.

i18n: a share of the cases loads the i18n extension (case['i18n'], see c15_ir);
in those, {% trans %} blocks (explicit and implicit variables, context string,
pluralize, trimmed/notrimmed) and gettext/_/ngettext/pgettext/npgettext calls
(new-style keyword variables, or old-style |format / % formatting) are further
constructs through which data reaches the output.  Message texts and context
strings are metacharacter-free template text; only the VARIABLES carry data.
"""
from __future__ import annotations

METAS = ["<", ">", '"', "'"]
XML_KEYS = ["id", "class", "title", "data-x"]
# metacharacters an attribute NAME may carry: the documented key validation of
# xmlattr rejects only space, '/', '>' and '='
KEY_METAS = ["<", "<", '"', "'", "&"]

# positional parameter names (from the filter documentation) used in mechanism keys
FILTER_PARAMS = {
    "indent": ["width", "first", "blank"],
    "replace": ["old", "new", "count"],
    "join": ["d", "attribute"],
    "truncate": ["length", "killwords", "end", "leeway"],
    "wordwrap": ["width", "break_long_words", "wrapstring", "break_on_hyphens"],
    "urlize": ["trim_url_limit", "nofollow", "target", "rel", "extra_schemes"],
    "default": ["default_value", "boolean"], "d": ["default_value", "boolean"],
    "batch": ["linecount", "fill_with"], "slice": ["slices", "fill_with"],
    "center": ["width"], "trim": ["chars"], "int": ["default", "base"], "float": ["default"],
    "tojson": ["indent"], "xmlattr": ["autospace"], "groupby": ["attribute", "default"],
    "dictsort": ["case_sensitive", "by", "reverse"], "sort": ["reverse", "case_sensitive", "attribute"],
    "unique": ["case_sensitive", "attribute"], "min": ["case_sensitive", "attribute"],
    "max": ["case_sensitive", "attribute"], "attr": ["name"], "round": ["precision", "method"],
    "filesizeformat": ["binary"], "sum": ["attribute", "start"],
}


class Gen:
    def __init__(self, rng, mode, i18n=None):
        self.rng = rng
        self.mode = mode
        self.i18n = i18n
        self.data = {}
        self.nonces = []
        self.k = 0

    # ------------------------------------------------------------ strings
    def nonce(self):
        """'9' followed by four digits 0-8: in any concatenation of nonces a
        5-character window that looks like a nonce is aligned on a real one."""
        while True:
            n = "9" + "".join(str(self.rng.randint(0, 8)) for _ in range(4))
            if n not in self.nonces:
                self.nonces.append(n)
                return n

    def shape(self, hint=None):
        """A plain string: every metacharacter has the nonce on both sides."""
        r = self.rng
        n = self.nonce()
        metas = [r.choice(METAS) for _ in range(r.randint(1, 4))]
        if hint is None:
            hint = r.choice(["plain", "plain", "plain", "words", "lines"])
        groups = [n + m + n for m in metas]
        if hint == "plain":
            return "".join(groups) if r.random() < 0.6 else " ab ".join(groups)
        if hint == "words":
            return " ".join(groups + ["lorem ab"])
        if hint == "lines":
            return "\n".join(groups[:2] + [""] + groups[2:] + ["ab"]) if r.random() < 0.5 else "\n".join(groups + ["ab"])
        if hint == "short":
            return groups[0]
        if hint == "fmt1":
            return groups[0] + "%s" + "".join(groups[1:])
        if hint == "fmt2":
            return "%s" + groups[0] + "%s" + "".join(groups[1:])
        if hint == "brace1":
            return groups[0] + "{}" + "".join(groups[1:])
        if hint == "bracek":
            return groups[0] + "{k}" + "".join(groups[1:])
        if hint == "url":
            parts = ["http://example.com/" + groups[0], "www.foo.org"]
            if len(groups) > 1:
                parts.append("x@y.com " + groups[1])
            parts += groups[2:]
            return " ".join(parts)
        raise AssertionError(hint)

    def url_text(self):
        """A plain string holding ONE long URL whose path carries nonce-bracketed
        metacharacters followed by a metacharacter-free remainder, plus a list of
        candidate trim_url_limit values placed RELATIVE to that URL: just after its
        first metacharacter, at / a few characters past the end of each
        metacharacter group (so a cut there keeps whole groups in the visible label,
        also when each metacharacter has grown into an entity), inside the remainder,
        very short, longer than the URL (no trimming) and one uniformly random.
        -> (text, limits)"""
        r = self.rng
        n = self.nonce()
        groups = [n + r.choice(METAS) + n for _ in range(r.randint(1, 3))]
        head = r.choice(["http://example.com/", "https://example.com/q?x=", "www.foo.org/", "http://www.foo.org/ab#"])
        sep = r.choice(["", "/", "ab", "?k="])
        rest = r.choice(["/lorem/ab/kk/index/lorem/ab/kk/page", "ab" * 16, "/k" * 15 + "#lorem"])
        url = head + sep.join(groups) + rest
        limits = [len(head) + 6, 6, len(url) + 25, r.randint(1, len(url) + 8), len(url) - r.randint(1, 6)]
        pos = len(head)
        for g in groups:
            pos += len(g)
            limits += [pos + off for off in (0, 4, 8, 12, 4 * len(groups) + 1)]
            pos += len(sep)
        words = [url]
        if r.random() < 0.5:
            words.insert(0, r.choice(["lorem", "(see", n + r.choice(METAS) + n]))
        if r.random() < 0.5:
            words.append(r.choice(["ab", "kk.", n + r.choice(METAS) + n]))
        return " ".join(words), limits

    def key_shape(self):
        """An attribute name that passes xmlattr's documented key validation but
        carries nonce-bracketed metacharacters."""
        r = self.rng
        n = self.nonce()
        metas = [r.choice(KEY_METAS) for _ in range(r.randint(1, 2))]
        if all(m == "&" for m in metas):
            metas[0] = r.choice(["<", '"', "'"])
        return r.choice(["", "", "data-", "x:", "on"]) + "".join(n + m + n for m in metas)

    def xml_dict(self, depth):
        """Subject of an xmlattr filter whose KEYS are data-controlled or nonce'd
        literals: dict display with data / literal keys, a data dict, dict(**...)
        / dict(...) calls over either, optionally through a {% set %}."""
        r = self.rng
        form = r.choice(["display", "display", "datadict", "datadict", "call", "call"])

        def display():
            kv = []
            for _ in range(r.randint(1, 2)):
                ks = self.key_shape()
                if r.random() < 0.5:
                    key = ["lit", ks]
                else:
                    nm = self.name("d")
                    self.data[nm] = ks
                    key = ["d", nm]
                kv.append([key, self.S_plain(depth - 1) if r.random() < 0.6 else ["klit", "ab"]])
            if r.random() < 0.4:
                kv.insert(r.randint(0, len(kv)), [r.choice(XML_KEYS), self.S_plain(depth - 1)])
            return ["dict", kv]

        def datadict():
            nm = self.name("D")
            dd = {}
            if r.random() < 0.3:
                dd[r.choice(XML_KEYS)] = self.shape("plain")
            for _ in range(r.randint(1, 2)):
                dd[self.key_shape()] = self.shape("plain") if r.random() < 0.6 else "ab"
            self.data[nm] = dd
            return ["D", nm]

        if form == "display":
            e = display()
        elif form == "datadict":
            e = datadict()
        else:
            inner = datadict() if r.random() < 0.6 else display()
            e = ["dictof", r.choice(["splat", "splat", "copy", "items", "items_method"]), inner]
        if r.random() < 0.25:
            e = ["cap", "setexpr", e]
        return e

    def name(self, prefix):
        self.k += 1
        return f"{prefix}{self.k}"

    def leaf(self, hint=None, lit_p=0.45):
        s = self.shape(hint)
        if self.rng.random() < lit_p:
            return ["lit", s]
        nm = self.name("d")
        self.data[nm] = s
        return ["d", nm]

    def leaf_L(self):
        r = self.rng
        if r.random() < 0.5:
            nm = self.name("L")
            self.data[nm] = [self.shape("plain") for _ in range(r.randint(2, 3))]
            return ["L", nm]
        return ["list", [self.leaf("plain") for _ in range(r.randint(2, 3))]]

    def leaf_D(self):
        r = self.rng
        if r.random() < 0.5:
            nm = self.name("D")
            self.data[nm] = {k: self.shape("plain") for k in ("k", "v")}
            return ["D", nm]
        return ["dict", [[k, self.leaf("plain")] for k in ("k", "v")]]

    def leaf_LD(self):
        nm = self.name("LD")
        self.data[nm] = [{"k": self.shape("short"), "v": self.shape("plain")} for _ in range(2)]
        return ["LD", nm]

    # -------------------------------------------------------- expressions
    def gen_S(self, depth, allow_struct=True, hint=None):
        """-> (expr, struct)"""
        r = self.rng
        if depth <= 0 or r.random() < 0.22:
            e = self.leaf(hint)
            if r.random() < 0.3:
                e = ["f", r.choice(["escape", "e"]), e, []]
            return e, False
        if self.i18n is not None and r.random() < 0.18:
            return self.gen_gt(depth, allow_struct)
        choice = r.random()
        if choice < 0.50:
            return self.gen_filter(depth, allow_struct)
        if choice < 0.64:
            return self.gen_bin(depth, allow_struct)
        if choice < 0.76:
            return self.gen_method(depth)
        if choice < 0.92:
            return self.gen_cap(depth, allow_struct)
        if choice < 0.96:
            a, sa = self.gen_S(depth - 1, allow_struct)
            b, sb = self.gen_S(depth - 1, allow_struct)
            return ["cond", self.gen_test(depth - 1), a, b], sa or sb
        d = self.leaf_D() if r.random() < 0.5 else None
        if d is not None:
            return ["idx", d, r.choice(["k", "v"])], False
        return ["idx", self.gen_L(depth - 1), r.choice([0, 1, -1])], False

    def gen_test(self, depth):
        r = self.rng
        s, _ = self.gen_S(depth, False)
        t = r.choice(["string", "defined", "none", "escaped", "in", "equalto", "lower", "sameas",
                      "mapping", "iterable", "sequence", "ne", "true"])
        if t == "in":
            return ["test", "in", s, [["list", [self.leaf("short")]]]]
        if t in ("equalto", "sameas", "ne"):
            return ["test", t, s, [self.leaf("short")]]
        if t == "true":
            return ["var", "flag"]
        return ["test", t, s, []]

    def S_plain(self, depth, hint=None):
        return self.gen_S(depth, False, hint)[0]

    def gen_filter(self, depth, allow_struct):
        r = self.rng
        simple = ["capitalize", "lower", "upper", "title", "string", "striptags", "urlencode", "escape",
                  "e", "forceescape", "reverse", "pprint", "trim", "center", "first", "last", "random",
                  "list", "length", "wordcount", "count"]
        withargs = ["indent", "replace", "truncate", "wordwrap", "format", "default", "d",
                    "int", "float", "join", "join", "seq", "seq", "map", "map", "dictsort", "items",
                    "groupby", "selectattr", "minmax", "batch", "slice", "attr", "num", "trim_chars", "sum"]
        structf = ["urlize", "xmlattr", "tojson"]
        pool = simple + withargs + withargs + (structf * 3 if allow_struct else [])
        f = r.choice(pool)
        d1 = depth - 1
        if f in simple:
            s = self.S_plain(d1, "words" if f in ("title", "capitalize", "wordcount") else None)
            args = [[None, ["num", r.choice([20, 40])]]] if f == "center" else []
            return ["f", f, s, args], False
        if f == "indent":
            s, st = self.gen_S(d1, allow_struct, "lines")
            if r.random() < 0.5:
                s = self.markupify(s)
            w = self.leaf(r.choice(["short", "plain"])) if r.random() < 0.75 else ["num", 2]
            args = [[r.choice([None, "width"]), w]]
            if args[0][0] is None:
                if r.random() < 0.6:
                    args.append([None, ["bool", r.random() < 0.6]])
                    if r.random() < 0.5:
                        args.append([None, ["bool", r.random() < 0.6]])
            else:
                if r.random() < 0.5:
                    args.append(["first", ["bool", True]])
                if r.random() < 0.4:
                    args.append(["blank", ["bool", True]])
            return ["f", "indent", s, args], st
        if f == "replace":
            s, st = self.gen_S(d1, allow_struct, "words")
            old = r.choice([["klit", "ab"], ["klit", " "], ["klit", "lorem"], self.leaf("short")])
            args = [[None, old], [None, self.S_plain(d1 - 1)]]
            if r.random() < 0.25:
                args.append([None, ["num", 1]])
            return ["f", "replace", s, args], st
        if f == "truncate":
            s = self.S_plain(d1, "words")
            if r.random() < 0.4:
                s = self.markupify(s)
            end = self.leaf("short")
            ln = len(end[1]) if end[0] == "lit" else len(self.data[end[1]])
            return ["f", "truncate", s, [[None, ["num", ln + r.choice([0, 2, 6])]], [None, ["bool", r.random() < 0.5]],
                                         [None, end], [None, ["num", 0]]]], False
        if f == "wordwrap":
            s = self.S_plain(d1, "words")
            if r.random() < 0.4:
                s = self.markupify(s)
            return ["f", "wordwrap", s, [[None, ["num", r.choice([4, 9, 15])]], [None, ["bool", r.random() < 0.5]],
                                         [None, self.leaf(r.choice(["short", "lines"]))]]], False
        if f == "format":
            two = r.random() < 0.4
            s = self.leaf("fmt2" if two else "fmt1")
            if r.random() < 0.5:
                s = self.markupify(s)
            args = [[None, self.S_plain(d1 - 1)] for _ in range(2 if two else 1)]
            return ["f", "format", s, args], False
        if f in ("default", "d"):
            if r.random() < 0.5:
                return ["f", f, ["var", "undef_q"], [[None, self.S_plain(d1)]]], False
            return ["f", f, ["klit", ""], [[None, self.S_plain(d1)], [None, ["bool", True]]]], False
        if f in ("int", "float"):
            return ["f", f, self.S_plain(d1 - 1), [[None, self.S_plain(d1 - 1)]]], False
        if f == "trim_chars":
            return ["f", "trim", self.S_plain(d1), [[None, self.leaf("short")]]], False
        if f == "join":
            l, st = self.gen_L(d1, allow_struct, want_struct=True)
            dl, sd = (self.gen_S(d1 - 1, False) if r.random() < 0.3 else (self.leaf(r.choice(["short", "plain"])), False))
            return ["f", "join", l, [[r.choice([None, "d"]), dl]]], st or sd
        if f == "seq":
            l = self.gen_L(d1)
            g = r.choice(["min", "max", "first", "last", "random", "sort", "unique", "reverse", "list", "length"])
            e = ["f", g, l, []]
            if g in ("sort", "unique", "reverse", "list"):
                e = ["f", "join", e, [[None, self.leaf("short")]]] if r.random() < 0.7 else e
            return e, False
        if f == "map":
            l = self.gen_L(d1)
            h = r.choice(["upper", "e", "escape", "trim", "string", "replace", "indent", "default", "center",
                          "truncate", "title", "forceescape", "attribute"])
            if h == "attribute":
                ld = self.leaf_LD()
                m = ["f", "map", ld, [["attribute", ["klit", r.choice(["k", "v", "zz"])]], ["default", self.leaf("short")]]]
            elif h == "replace":
                m = ["f", "map", l, [[None, ["klit", h]], [None, ["klit", "ab"]], [None, self.leaf("short")]]]
            elif h == "indent":
                m = ["f", "map", ["f", "map", l, [[None, ["klit", "e"]]]],
                     [[None, ["klit", h]], [None, self.leaf("short")], [None, ["bool", True]]]]
            elif h == "default":
                m = ["f", "map", l, [[None, ["klit", h]], [None, self.leaf("short")]]]
            elif h == "center":
                m = ["f", "map", l, [[None, ["klit", h]], [None, ["num", 30]]]]
            elif h == "truncate":
                e = self.leaf("short")
                ln = len(e[1]) if e[0] == "lit" else len(self.data[e[1]])
                m = ["f", "map", l, [[None, ["klit", h]], [None, ["num", ln + 2]], [None, ["bool", True]], [None, e], [None, ["num", 0]]]]
            else:
                m = ["f", "map", l, [[None, ["klit", h]]]]
            if r.random() < 0.8:
                return ["f", "join", m, [[None, self.leaf("short")]]], False
            return ["f", "list", m, []], False
        if f == "dictsort":
            return ["f", "dictsort", self.leaf_D(), []], False
        if f == "items":
            return ["f", "list", ["f", "items", self.leaf_D(), []], []], False
        if f == "groupby":
            g = ["f", "groupby", self.leaf_LD(), [[None, ["klit", r.choice(["k", "zz"])]], ["default", self.leaf("short")]]]
            if r.random() < 0.5:
                return ["f", "list", g, []], False
            return ["f", "join", ["f", "map", g, [["attribute", ["klit", "grouper"]]]], [[None, self.leaf("short")]]], False
        if f == "selectattr":
            ld = self.leaf_LD()
            first_k = self.data[ld[1]][0]["k"]
            nm = self.name("d")
            self.data[nm] = first_k
            sel = ["f", r.choice(["selectattr", "rejectattr"]), ld, [[None, ["klit", "k"]], [None, ["klit", "equalto"]], [None, ["d", nm]]]]
            return ["f", "join", ["f", "map", sel, [["attribute", ["klit", "v"]]]], [[None, self.leaf("short")]]], False
        if f == "minmax":
            return ["f", r.choice(["min", "max"]), self.leaf_LD(), [["attribute", ["klit", "v"]]]], False
        if f in ("batch", "slice"):
            l = self.gen_L(d1)
            b = ["f", f, l, [[None, ["num", 2]], [None, self.leaf("short")]]]
            if r.random() < 0.5:
                return ["f", "list", b, []], False
            return ["f", "join", ["f", "map", b, [[None, ["klit", "join"]], [None, self.leaf("short")]]],
                    [[None, self.leaf("short")]]], False
        if f == "attr":
            e, st = self.gen_S(d1, allow_struct)
            return ["f", "attr", ["cap", "nsobj", e], [[None, ["klit", "a"]]]], st
        if f == "num":
            g = r.choice(["abs", "round", "filesizeformat", "int", "float"])
            return ["bin", "~", ["f", g, ["num", r.choice([3, -7, 2500000])], []], self.S_plain(d1)], False
        if f == "sum":
            return ["bin", "~", ["f", "sum", ["list", [["num", 1], ["num", 2]]], []], self.S_plain(d1)], False
        if f == "urlize":
            args = []
            if r.random() < 0.5:
                s = self.leaf("url")
                if r.random() < 0.4:
                    args.append(["trim_url_limit", ["num", r.choice([6, 15, 40])]])
            else:
                # long URL + a trim limit placed relative to the URL's own metacharacters
                text, limits = self.url_text()
                if r.random() < 0.45:
                    s = ["lit", text]
                else:
                    nm = self.name("d")
                    self.data[nm] = text
                    s = ["d", nm]
                if r.random() < 0.8:
                    args.append([r.choice([None, "trim_url_limit"]), ["num", r.choice(limits)]])
            if r.random() < 0.3:
                args.append(["nofollow", ["bool", True]])
            if r.random() < 0.5:
                args.append(["target", self.leaf("short")])
            if r.random() < 0.5:
                args.append(["rel", self.leaf("short")])
            return ["f", "urlize", s, args], True
        if f == "xmlattr":
            if r.random() < 0.5:
                d = self.xml_dict(d1)
                return ["f", "xmlattr", d, ([[None, ["bool", False]]] if r.random() < 0.2 else [])], True
            keys = r.sample(XML_KEYS, r.randint(1, 3))
            d = ["dict", [[k, self.S_plain(d1 - 1)] for k in keys]]
            return ["f", "xmlattr", d, ([[None, ["bool", False]]] if r.random() < 0.2 else [])], True
        if f == "tojson":
            c = r.random()
            v = self.S_plain(d1 - 1) if c < 0.4 else self.gen_L(d1 - 1) if c < 0.7 else self.leaf_D()
            return ["f", "tojson", v, ([[None, ["num", 2]]] if r.random() < 0.2 else [])], True
        raise AssertionError(f)

    # ---------------------------------------------------------------- i18n
    def i18n_struct(self):
        """Translations that carry markup of their own make the value structured."""
        return bool(self.i18n and self.i18n.get("markup"))

    def gen_gt(self, depth, allow_struct, hole=None):
        """A gettext-family call whose variables carry data -> (expr, struct)."""
        r = self.rng
        func = r.choice(["gettext", "gettext", "_", "ngettext", "pgettext", "pgettext", "npgettext"])
        if self.i18n_struct() and not allow_struct:
            # the bare data expression instead: markup-carrying translations only go to
            # structure-preserving consumers
            return self.gen_S(depth - 1, False)
        st = self.i18n_struct()
        args = []
        nargs = r.choice([1, 1, 1, 2, 0]) if hole is None else r.choice([0, 1])
        for _ in range(nargs):
            a, s1 = self.gen_S(depth - 1, allow_struct)
            st = st or s1
            args.append([self.name("a"), a])
        if hole is not None:
            args.insert(r.randint(0, len(args)), [self.name("a"), hole])
        num = None
        if func in ("ngettext", "npgettext"):
            num = ["num", r.choice([1, 2, 2, 0])] if r.random() < 0.7 else ["f", "length", self.leaf_L(), []]
        opts = {"ctx": r.choice(["ctx", "menu item"]) if func in ("pgettext", "npgettext") else None,
                "old": r.choice(["format", "format", "mod"])}
        return ["gt", func, opts, args, num], st

    def gen_trans(self, depth, allow_struct):
        """A {% trans %} block whose variables carry data -> (stmt, struct)."""
        r = self.rng
        st = self.i18n_struct()
        args = []
        for _ in range(r.choice([1, 1, 1, 2, 2, 3, 0])):
            if r.random() < 0.3:
                nm = self.name("d")
                self.data[nm] = self.shape()
                args.append([None, ["d", nm]])
            else:
                a, s1 = self.gen_S(depth - 1, allow_struct)
                st = st or s1
                args.append([self.name("a"), a])
        count = None
        if r.random() < 0.35:
            count = ["num", r.choice([1, 2, 2, 0, 7])] if r.random() < 0.7 else ["f", "length", self.leaf_L(), []]
        opts = {"ctx": r.choice(["ctx", "menu item", "k"]) if r.random() < 0.4 else None,
                "trim": r.choice([None, None, "trimmed", "notrimmed"]),
                "cname": r.choice(["num", "num", "n", "count"]),
                "ws": r.random() < 0.4,
                "pl_explicit": r.random() < 0.3}
        return ["trans", opts, args, count], st

    def markupify(self, e):
        if e[0] == "f" and e[1] in ("escape", "e"):
            return e
        return ["f", "escape", e, []]

    def gen_bin(self, depth, allow_struct):
        r = self.rng
        op = r.choice(["~", "~", "+", "+", "%", "*"])
        d1 = depth - 1
        if op == "%":
            two = r.random() < 0.4
            l = self.leaf("fmt2" if two else "fmt1")
            if r.random() < 0.5:
                l = self.markupify(l)
            if two:
                rr = ["tuple", [self.S_plain(d1 - 1), self.S_plain(d1 - 1)]]
            else:
                rr = self.S_plain(d1 - 1)
                if r.random() < 0.3:
                    rr = ["tuple", [rr]]
            return ["bin", "%", l, rr], False
        if op == "*":
            return ["bin", "*", self.S_plain(d1), ["num", 2]], False
        a, sa = self.gen_S(d1, allow_struct)
        b, sb = self.gen_S(d1, allow_struct)
        if op == "+":
            # str + Markup is fine, but str + int etc. is not generated
            pass
        return ["bin", op, a, b], sa or sb

    def gen_method(self, depth):
        r = self.rng
        d1 = depth - 1
        m = r.choice(["upper", "lower", "title", "capitalize", "swapcase", "strip", "strip_c", "replace",
                      "format", "format", "format_map", "join", "join", "center", "ljust", "zfill", "split",
                      "partition", "splitlines", "removeprefix", "removesuffix", "expandtabs", "casefold",
                      "lstrip", "rsplit"])
        s = self.S_plain(d1)
        mk = r.random() < 0.5
        if m in ("upper", "lower", "title", "capitalize", "swapcase", "strip", "expandtabs", "casefold", "lstrip", "splitlines"):
            return ["m", m, self.markupify(s) if mk else s, []], False
        if m == "strip_c":
            return ["m", "strip", self.markupify(s) if mk else s, [self.leaf("short")]], False
        if m == "replace":
            return ["m", "replace", self.markupify(s) if mk else s, [["klit", "ab"], self.S_plain(d1 - 1)]], False
        if m == "format":
            l = self.leaf("brace1")
            return ["m", "format", self.markupify(l) if mk else l, [self.S_plain(d1 - 1)]], False
        if m == "format_map":
            l = self.leaf("bracek")
            return ["m", "format_map", self.markupify(l) if mk else l, [self.leaf_D()]], False
        if m == "join":
            l = self.leaf("short")
            return ["m", "join", self.markupify(l) if mk else l, [self.gen_L(d1)]], False
        if m in ("center", "ljust"):
            return ["m", m, self.markupify(s) if mk else s, [["num", 30]]], False
        if m == "zfill":
            return ["m", m, self.markupify(s) if mk else s, [["num", 30]]], False
        if m in ("split", "rsplit", "partition"):
            return ["m", m, self.markupify(s) if mk else s, [["klit", "ab"]]], False
        if m in ("removeprefix", "removesuffix"):
            return ["m", m, self.markupify(s) if mk else s, [self.leaf("short")]], False
        raise AssertionError(m)

    def gen_L(self, depth, allow_struct=False, want_struct=False):
        """-> expr (or (expr, struct) when want_struct)"""
        r = self.rng
        st = False
        if depth <= 0 or r.random() < 0.45:
            e = self.leaf_L()
        else:
            c = r.random()
            if c < 0.35:
                items = []
                for _ in range(r.randint(2, 3)):
                    x, s1 = self.gen_S(depth - 1, allow_struct)
                    st = st or s1
                    items.append(x)
                e = ["list", items]
            elif c < 0.5:
                e = ["f", "list", ["f", "map", self.leaf_L(), [[None, ["klit", r.choice(["e", "upper", "string"])]]]], []]
            elif c < 0.6:
                e = ["m", "split", self.leaf("words"), []]
            elif c < 0.7:
                e = ["f", "list", ["f", r.choice(["select", "reject"]), self.leaf_L(), [[None, ["klit", "none"]]]], []]
            elif c < 0.8:
                e = ["f", "list", ["f", "map", self.leaf_LD(), [["attribute", ["klit", "v"]]]], []]
            elif c < 0.9:
                e = ["f", r.choice(["sort", "list"]), self.leaf_L(), []]
            else:
                e = ["m", "values", self.leaf_D(), []]
        if want_struct:
            return e, st
        return e

    def gen_cap(self, depth, allow_struct):
        r = self.rng
        d1 = depth - 1
        k = r.choice(["setblock", "setblock", "setexpr", "macro", "macro", "macro_arg", "macro_arg",
                      "import_macro", "import_var", "selfblock", "joiner", "nsattr", "fsetblock", "fsetblock"])
        if k == "fsetblock":
            fb, st = self.gen_fblock(d1, allow_struct)
            return ["cap", k, fb[1], fb[2], fb[3]], st
        if k in ("setblock", "macro", "import_macro", "selfblock"):
            body, st = self.gen_stmts(d1, allow_struct, top=False)
            if k == "import_macro":
                return ["cap", k, body, r.choice(["import", "from"])], st
            return ["cap", k, body], st
        if k in ("setexpr", "import_var", "nsattr"):
            e, st = self.gen_S(d1, allow_struct)
            return ["cap", k, e], st
        if k == "joiner":
            return ["cap", k, self.leaf("short")], False
        if k == "macro_arg":
            a, st = self.gen_S(d1, allow_struct)
            post = self.gen_post(d1)
            return ["cap", k, a, post, r.choice(["pos", "pos", "default", "kw", "varargs", "kwargs"])], st
        raise AssertionError(k)

    def gen_post(self, depth):
        """An expression over ['hole'] that is safe for structured values."""
        r = self.rng
        c = r.random()
        h = ["hole"]
        if c < 0.5 or depth <= 0:
            return h
        if c < 0.6:
            args = [[None, self.leaf("short")]]
            if r.random() < 0.6:
                args.append([None, ["bool", True]])
            return ["f", "indent", h, args]
        if c < 0.75:
            return ["bin", r.choice(["~", "+"]), h, self.leaf("short")] if r.random() < 0.5 else \
                ["bin", "~", self.leaf("short"), h]
        if c < 0.85:
            return ["f", "join", ["list", [h, self.leaf("short")]], [[None, self.leaf("short")]]]
        if c < 0.93:
            return ["f", "replace", h, [[None, ["klit", "lorem"]], [None, self.leaf("short")]]]
        if self.i18n is not None and c < 0.97:
            return self.gen_gt(depth, True, hole=h)[0]
        return ["f", r.choice(["string", "trim", "escape", "default"]), h, []]

    # --------------------------------------------------------- statements
    def gen_stmts(self, depth, allow_struct=True, top=True):
        r = self.rng
        n = r.randint(1, 2)
        out = []
        st = False
        for _ in range(n):
            s, s1 = self.gen_stmt(depth, allow_struct)
            st = st or s1
            out.append(s)
            if r.random() < 0.3:
                out.append(["text", r.choice([" ", "\n", " - ", "\nab "])])
        return out, st

    def gen_stmt(self, depth, allow_struct=True):
        r = self.rng
        if self.i18n is not None and (allow_struct or not self.i18n_struct()) and r.random() < 0.2:
            return self.gen_trans(depth, allow_struct)
        c = r.random()
        d1 = depth - 1
        if depth <= 0 or c < 0.45:
            e, st = self.gen_S(depth, allow_struct)
            return ["out", e], st
        if c < 0.55:
            body, st = self.gen_stmts(d1, allow_struct, False)
            return [r.choice(["if", "for1", "with", "block"]), body], st
        if c < 0.67:
            return self.gen_fblock(d1, allow_struct)
        if c < 0.75:
            body, st = self.gen_stmts(d1, allow_struct, False)
            return ["callblock", body, self.gen_post(d1)], st
        if c < 0.80:
            e, st = self.gen_S(d1, allow_struct)
            return ["callarg", e, self.gen_post(d1)], st
        if c < 0.88:
            l = self.gen_L(d1)
            cyc = r.random() < 0.3
            return ["foreach", l, self.gen_post(d1), r.random() < 0.25,
                    self.leaf("short") if cyc else None, self.leaf("short") if cyc else None], False
        if c < 0.92:
            return ["forkv", self.leaf_D(), r.choice(["items", "filter", "dictsort"]),
                    self.gen_post(d1), self.gen_post(d1)], False
        body, st = self.gen_stmts(d1, allow_struct, False)
        return ["include", body], st

    def gen_fblock(self, depth, allow_struct):
        r = self.rng
        body, st = self.gen_stmts(depth, allow_struct, False)
        body = [["text", "ab\nlorem ab "]] + body
        c = r.random()
        if c < 0.2:
            args = [[None, self.leaf("short")]]
            if r.random() < 0.6:
                args.append([None, ["bool", True]])
            return ["fblock", "indent", args, body], st
        if c < 0.55:
            return ["fblock", "replace", [[None, ["klit", "ab"]], [None, self.leaf("short")]], body], st
        if st:
            return ["fblock", r.choice(["trim", "string", "escape"]), [], body], st
        if c < 0.62:
            return ["fblock", "join", [[None, self.leaf("short")]], body], st
        if c < 0.66:
            return ["fblock", "trim", [[None, self.leaf("short")]], body], st
        if c < 0.72:
            e = self.leaf("short")
            ln = len(e[1]) if e[0] == "lit" else len(self.data[e[1]])
            return ["fblock", "truncate", [[None, ["num", ln + 4]], [None, ["bool", True]], [None, e], [None, ["num", 0]]], body], st
        if c < 0.76:
            return ["fblock", "format", [[None, self.leaf("short")]], [["text", "ab %s ab "]] + body[1:]], st
        if c < 0.82:
            return ["fblock", "wordwrap", [[None, ["num", 6]], [None, ["bool", True]], [None, self.leaf("short")]], body], st
        return ["fblock", r.choice(["upper", "title", "trim", "center", "striptags", "forceescape", "urlencode",
                                    "capitalize", "reverse", "list", "pprint"]), [], body], st

    def gen_unit(self, depth, extends):
        r = self.rng
        if extends and r.random() < 0.6:
            base, st = self.gen_stmts(depth - 1, True, False)
            c = r.random()
            if c < 0.25:
                child = None
            elif c < 0.8:
                child = ["super", self.gen_post(depth - 1)]
            else:
                own, _ = self.gen_stmts(depth - 1, True, False)
                child = ["own", own]
            return [["xblock", base, child]]
        body, _ = self.gen_stmts(depth, True, True)
        return body


def gen_case(rng, mode=None):
    mode = mode or rng.choice(["static", "static", "selector", "runtime", "runtime", "runtime"])
    i18n = None
    if rng.random() < 0.35:
        i18n = {"newstyle": rng.random() < 0.55,
                "install": rng.choice(["null", "null", "object", "object", "uobject", "callables"]),
                "markup": rng.random() < 0.3, "dup": rng.random() < 0.3,
                "trim_policy": rng.random() < 0.2}
    g = Gen(rng, mode, i18n)
    extends = rng.random() < 0.25
    depth = rng.choice([1, 2, 2, 3, 3])
    units = [g.gen_unit(depth, extends) for _ in range(rng.randint(1, 3))]
    case = {
        "mode": mode,
        "flag": rng.choice(["literal", "volatile", "volatile"]),
        "layout": rng.choice(["file", "stmt", "stmt"]),
        "env": {"sandbox": rng.random() < 0.2, "async": rng.random() < 0.12,
                "finalize": rng.random() < 0.15, "optimized": rng.random() >= 0.15},
        "extends": extends,
        "i18n": i18n,
        "units": units,
        "data": g.data,
        "rseed": rng.randint(0, 10**6),
    }
    return case
