"""C24 input generators: adversarial strings, URL/e-mail-like text, nested
JSON values and filter arguments.  All randomness comes from the passed rng."""
from __future__ import annotations

META = ["<", ">", "&", '"', "'"]
WS = [" ", " ", " ", "\t", "\n", "\r", "\r\n", "\f", "\v", "\x1c", "\x1d", "\x1e", "\x1f",
      "\x85", "\xa0", " ", " ", "　", " "]
HTML_BITS = ["</script>", "<!--", "-->", "]]>", "<b>", "</a>", "<a href=\"x\">", "&lt;", "&gt;",
             "&amp;", "&#39;", "&#34;", "&quot;", "&", "&#x3c;", "<script>alert(1)</script>",
             "onclick=", "javascript:alert(1)", "\" onmouseover=\"x", "' x='", "`", "\\", "\\\"",
             "\\u003c", "=", "/", "/>", "\x00", "\x7f"]
WORDS = ["a", "b", "foo", "Bar", "x1", "lorem", "ipsum", "Z", "é", "中文", "ß", "\U0001f600", "0", "42"]
SCHEMES = ["http://", "https://", "HTTP://", "www.", "mailto:", "ftp://", "tel:", "javascript:",
           "data:", "x-y+z.1:/", "file:///", ""]
HOSTS = ["example.com", "foo.org", "a.b.c.net", "localhost", "127.0.0.1", "[::1]", "[2001:db8::1]",
         "xn--bcher-kva.ch", "sub-domain.example.info", "EXAMPLE.COM", "exa%6dple.com", "foo.museum",
         "a.co", "x.y", "999.999.999.999"]
PATHS = ["", "/", "/p", "/a/b?c=d&e=f", "/x#frag", "?q=1", "/(paren)", "/<tag>", "/\"q\"", "/'s'",
         "/a&b", "/a;b", ":8080/", ":99999/x", "/%3C", "/a,b.", "/trail.", "/trail,", "/trail)",
         "/t>", "/é", "/(a(b)c", "/[x]"]
HEADS = ["", "", "", "(", "<", "((", "<(", "&lt;", "[", "\"", "'"]
TAILS = ["", "", "", ")", ">", ".", ",", ").", ">,", "&gt;", "]", "\"", "'", "...", "))", "!"]
LOCALS = ["user", "a.b", "x+y", "<me>", "\"q\"", "a'b", "a&b", "me@again", "@", ""]


def hostile(rng, lo=0, hi=8, ws=True, surrogate=False):
    n = rng.randint(lo, hi)
    out = []
    for _ in range(n):
        r = rng.random()
        if r < 0.30:
            out.append(rng.choice(META))
        elif r < 0.45 and ws:
            out.append(rng.choice(WS))
        elif r < 0.65:
            out.append(rng.choice(HTML_BITS))
        elif r < 0.68 and surrogate:
            out.append(rng.choice(["\ud800", "\udfff", "\ud83d"]))
        else:
            out.append(rng.choice(WORDS))
    return "".join(out)


def urlish_word(rng):
    r = rng.random()
    if r < 0.55:
        core = rng.choice(SCHEMES) + rng.choice(HOSTS) + rng.choice(PATHS)
        if rng.random() < 0.25:
            core += hostile(rng, 1, 3, ws=False)
    elif r < 0.8:
        core = (rng.choice(["", "", "mailto:", "MAILTO:"]) + rng.choice(LOCALS) + "@" +
                rng.choice(HOSTS) + rng.choice(["", "", "?cc=x@y.com", "?subject=<b>"]))
    elif r < 0.9:
        core = hostile(rng, 1, 4, ws=False)
    else:
        core = rng.choice(WORDS)
    return rng.choice(HEADS) + core + rng.choice(TAILS)


def urlish_text(rng):
    n = rng.randint(1, 6)
    out = []
    for i in range(n):
        if i:
            out.append(rng.choice(WS))
        out.append(urlish_word(rng))
    if rng.random() < 0.15:
        out.append(rng.choice(WS))
    return "".join(out)


VALID_SCHEMES = ["tel:", "ftp://", "x-y+z.1:/", "javascript:", "data:", "file:///"[:7], "te:", "tel:/",
                 "ht:", "mailto:", "ww:", "a1:"]
INVALID_SCHEMES = ["t:", "<:", "tel", "a b:", "\"x:", "tel:///", ":", "x:y"]


def urlize_args(rng):
    a = {}
    if rng.random() < 0.5:
        a["trim_url_limit"] = rng.choice([0, 1, 3, 5, 8, 12, 20, 40])
    if rng.random() < 0.4:
        a["nofollow"] = rng.random() < 0.7
    if rng.random() < 0.5:
        a["target"] = rng.choice(["_blank", hostile(rng, 1, 4), hostile(rng, 0, 2, ws=False), ""])
    if rng.random() < 0.5:
        a["rel"] = rng.choice(["nofollow", "noopener ugc", hostile(rng, 1, 4), hostile(rng, 1, 3, ws=False)])
    if rng.random() < 0.4:
        k = rng.randint(0, 3)
        sch = [rng.choice(VALID_SCHEMES) for _ in range(k)]
        if rng.random() < 0.08:
            sch.append(rng.choice(INVALID_SCHEMES))
        a["extra_schemes"] = sch
    return a


def json_value(rng, depth=0):
    r = rng.random()
    if depth >= 3:
        r *= 0.6
    if r < 0.35:
        return hostile(rng, 0, 6, surrogate=True)
    if r < 0.42:
        return rng.choice([0, -1, 7, 2**53 + 1, -10**30, 123456789])
    if r < 0.48:
        return rng.choice([0.0, -0.5, 1e100, 1.5e-7, 3.14])
    if r < 0.54:
        return rng.choice([True, False, None])
    if r < 0.6:
        return rng.choice(["'", "<", ">", "&", "</script>", "<!--", " ", "'\"<>&", "\\'", "&#39;"])
    if r < 0.8:
        return [json_value(rng, depth + 1) for _ in range(rng.randint(0, 4))]
    d = {}
    for _ in range(rng.randint(0, 4)):
        d[hostile(rng, 0, 3, surrogate=True)] = json_value(rng, depth + 1)
    return d


KEY_SAFE = ["id", "class", "data-x", "title", "aria-label", "X", "a.b", "xml:lang", "k1", "é", "_u"]
KEY_BAD_CHARS = [" ", "\t", "\n", "\r", "\f", "/", ">", "="]
KEY_ODD_CHARS = ["\v", "\x1c", "\x85", "\xa0", " ", "<", '"', "'", "&", "`", "\\", "\x7f", ";", ":"]


def xml_key(rng):
    r = rng.random()
    base = rng.choice(KEY_SAFE)
    if r < 0.45:
        return base
    if r < 0.75:
        c = rng.choice(KEY_BAD_CHARS)
    else:
        c = rng.choice(KEY_ODD_CHARS)
    pos = rng.choice(["pre", "mid", "post", "inj"])
    if pos == "pre":
        return c + base
    if pos == "post":
        return base + c
    if pos == "mid":
        k = rng.randint(1, max(1, len(base) - 1))
        return base[:k] + c + base[k:]
    return base + c + rng.choice(["onclick=alert(1)", "x", "y=\"1\"", "><script>", "/"])


def xml_value(rng):
    r = rng.random()
    if r < 0.6:
        return ["s", hostile(rng, 0, 6)]
    if r < 0.7:
        return ["i", rng.choice([0, 1, -5, 10**20])]
    if r < 0.76:
        return ["f", rng.choice([0.5, -1.25, 1e30])]
    if r < 0.82:
        return ["b", rng.random() < 0.5]
    if r < 0.91:
        return ["none"]
    return ["undef"]


def xml_dict(rng):
    n = rng.randint(0, 4)
    items = []
    seen = []
    for _ in range(n):
        k = xml_key(rng)
        if k in seen or k == "":
            continue
        seen.append(k)
        items.append([k, xml_value(rng)])
    return items


# ---- xmlattr: mappings whose KEYS (and values) are not plain str ----------------------------
# a typed key is [type label, JSON payload]; vt.checks.c24.make_key builds the object.  Every
# forbidden character class (space / other whitespace, '/', '>', '=') occurs in the TEXT FORM of
# several key types: tuples and datetimes and bytes (space), Fraction and PurePath ('/'),
# tuples of strings and application objects with __str__ (any character).
def typed_key(rng):
    r = rng.randrange(16)
    if r == 0:
        return ["int", rng.choice([0, 1, 7, -1, 10**20])]
    if r == 1:
        return ["float", rng.choice([1.5, -0.5, 1e30, 0.0])]
    if r == 2:
        return rng.choice([["bool", True], ["bool", False], ["nonekey", None]])
    if r == 3:
        k = rng.randint(1, 3)
        return ["tuple", [rng.choice(["a", "data-b", "x>y", "k=v", "a/b", "c d", "id"])
                          for _ in range(k)]]
    if r == 4:
        return ["tuple", [rng.choice([1, 2, "a"]) for _ in range(rng.randint(1, 2))]]
    if r == 5:
        return ["frac", rng.choice([[1, 2], [3, 1], [-7, 3], [22, 7]])]
    if r == 6:
        return ["path", rng.choice(["a/b", "a", "data-x/onclick=alert(1)", "x y/z", "/abs", "a>b"])]
    if r == 7:
        return ["bytes", rng.choice(["ab", "a b", "a/b", "a=b", "a>b", "id"])]
    if r == 8:
        return rng.choice([["dt", [2020, 1, 2, 3, 4, 5]], ["date", [2020, 1, 2]],
                           ["complex", [1, 2]]])
    if r == 9:
        label, text = rng.choice(["strsub", "strenum", "markup"]), xml_key(rng)
        if label == "markup" and any(c in text for c in "<\"'&"):
            label = "strsub"        # Markup is the author's explicit marking: not judged
        return [label, text]
    if r == 10:
        return ["frozenset", [rng.choice(["a", "a b", "x=y"])]]
    # an application object whose __str__ is the attribute name it stands for
    return ["obj", xml_key(rng)]


def xml_value_typed(rng):
    r = rng.random()
    if r < 0.5:
        return xml_value(rng)
    if r < 0.65:
        return ["o", hostile(rng, 1, 5)]                    # object with __str__
    if r < 0.78:
        return ["l", [hostile(rng, 0, 3) for _ in range(rng.randint(0, 3))]]   # list of str
    if r < 0.86:
        return ["fr", rng.choice([[1, 3], [-5, 2]])]
    if r < 0.93:
        return ["by", hostile(rng, 0, 4)]                   # bytes
    return ["s", hostile(rng, 0, 6)]


def xml_dict_typed(rng):
    """1-3 items; most keys are typed (non-str / str subclass), the others harmless str keys so
    that a refusal is the typed key's."""
    items = []
    seen = []
    for _ in range(rng.randint(1, 3)):
        k = typed_key(rng) if rng.random() < 0.7 else rng.choice(KEY_SAFE)
        if k in seen or k[-1] == "":
            continue
        seen.append(k)
        v = xml_value_typed(rng)
        if v[0] in ("none", "undef") and rng.random() < 0.7:
            v = ["s", hostile(rng, 0, 4)]
        items.append([k, v])
    return items


def nonce(rng, used):
    while True:
        n = str(rng.randint(10000, 99999))
        if all(n not in u and u not in n for u in used):
            used.append(n)
            return n


def nonced(rng, n, extra=""):
    """A plain string whose every markup character is surrounded by nonce n."""
    k = rng.randint(1, 4)
    out = [n]
    for _ in range(k):
        out.append(rng.choice(["<", ">", '"', "'", "<", "&"]))
        out.append(n)
        if extra and rng.random() < 0.3:
            out.append(rng.choice(extra))
            out.append(n)
    return "".join(out)
