"""C24 input generators: adversarial strings, URL/e-mail-like text, nested
JSON values and filter arguments.  All randomness comes from the passed rng."""
from __future__ import annotations

META = ["<", ">", "&", '"', "'"]
WS = [" ", " ", " ", "\t", "\n", "\r", "\r\n", "\f", "\v", "\x1c", "\x1d", "\x1e", "\x1f",
      "\x85", "\xa0", " ", " ", "　", " "]
HTML_BITS = ["</script>", "<!--", "-->", "]]>", "<b>", "</a>", "<a href=\"x\">", "&lt;", "&gt;",
             "&amp;", "&#39;", "&#34;", "&quot;", "&", "&#x3c;", "<script>alert(1)</script>",
             "onclick=", "javascript:alert(1)", "\" onmouseover=\"x", "' x='", "`", "\\", "\\\"",
             "\\u003c", "=", "/", "/>", "\x00", "\x7f"]
WORDS = ["a", "b", "foo", "Bar", "x1", "lorem", "ipsum", "Z", "é", "中文", "ß", "\U0001f600", "0", "42"]
SCHEMES = ["http://", "https://", "HTTP://", "www.", "mailto:", "ftp://", "tel:", "javascript:",
           "data:", "x-y+z.1:/", "file:///", ""]
HOSTS = ["example.com", "foo.org", "a.b.c.net", "localhost", "127.0.0.1", "[::1]", "[2001:db8::1]",
         "xn--bcher-kva.ch", "sub-domain.example.info", "EXAMPLE.COM", "exa%6dple.com", "foo.museum",
         "a.co", "x.y", "999.999.999.999"]
PATHS = ["", "/", "/p", "/a/b?c=d&e=f", "/x#frag", "?q=1", "/(paren)", "/<tag>", "/\"q\"", "/'s'",
         "/a&b", "/a;b", ":8080/", ":99999/x", "/%3C", "/a,b.", "/trail.", "/trail,", "/trail)",
         "/t>", "/é", "/(a(b)c", "/[x]"]
HEADS = ["", "", "", "(", "<", "((", "<(", "&lt;", "[", "\"", "'"]
TAILS = ["", "", "", ")", ">", ".", ",", ").", ">,", "&gt;", "]", "\"", "'", "...", "))", "!"]
LOCALS = ["user", "a.b", "x+y", "<me>", "\"q\"", "a'b", "a&b", "me@again", "@", ""]


def hostile(rng, lo=0, hi=8, ws=True, surrogate=False):
    n = rng.randint(lo, hi)
    out = []
    for _ in range(n):
        r = rng.random()
        if r < 0.30:
            out.append(rng.choice(META))
        elif r < 0.45 and ws:
            out.append(rng.choice(WS))
        elif r < 0.65:
            out.append(rng.choice(HTML_BITS))
        elif r < 0.68 and surrogate:
            out.append(rng.choice(["\ud800", "\udfff", "\ud83d"]))
        else:
            out.append(rng.choice(WORDS))
    return "".join(out)


def urlish_word(rng):
    r = rng.random()
    if r < 0.55:
        core = rng.choice(SCHEMES) + rng.choice(HOSTS) + rng.choice(PATHS)
        if rng.random() < 0.25:
            core += hostile(rng, 1, 3, ws=False)
    elif r < 0.8:
        core = (rng.choice(["", "", "mailto:", "MAILTO:"]) + rng.choice(LOCALS) + "@" +
                rng.choice(HOSTS) + rng.choice(["", "", "?cc=x@y.com", "?subject=<b>"]))
    elif r < 0.9:
        core = hostile(rng, 1, 4, ws=False)
    else:
        core = rng.choice(WORDS)
    return rng.choice(HEADS) + core + rng.choice(TAILS)


def urlish_text(rng):
    n = rng.randint(1, 6)
    out = []
    for i in range(n):
        if i:
            out.append(rng.choice(WS))
        out.append(urlish_word(rng))
    if rng.random() < 0.15:
        out.append(rng.choice(WS))
    return "".join(out)


VALID_SCHEMES = ["tel:", "ftp://", "x-y+z.1:/", "javascript:", "data:", "file:///"[:7], "te:", "tel:/",
                 "ht:", "mailto:", "ww:", "a1:"]
INVALID_SCHEMES = ["t:", "<:", "tel", "a b:", "\"x:", "tel:///", ":", "x:y"]


def urlize_args(rng):
    a = {}
    if rng.random() < 0.5:
        a["trim_url_limit"] = rng.choice([0, 1, 3, 5, 8, 12, 20, 40])
    if rng.random() < 0.4:
        a["nofollow"] = rng.random() < 0.7
    if rng.random() < 0.5:
        a["target"] = rng.choice(["_blank", hostile(rng, 1, 4), hostile(rng, 0, 2, ws=False), ""])
    if rng.random() < 0.5:
        a["rel"] = rng.choice(["nofollow", "noopener ugc", hostile(rng, 1, 4), hostile(rng, 1, 3, ws=False)])
    if rng.random() < 0.4:
        k = rng.randint(0, 3)
        sch = [rng.choice(VALID_SCHEMES) for _ in range(k)]
        if rng.random() < 0.08:
            sch.append(rng.choice(INVALID_SCHEMES))
        a["extra_schemes"] = sch
    return a


def json_value(rng, depth=0):
    r = rng.random()
    if depth >= 3:
        r *= 0.6
    if r < 0.35:
        return hostile(rng, 0, 6, surrogate=True)
    if r < 0.42:
        return rng.choice([0, -1, 7, 2**53 + 1, -10**30, 123456789])
    if r < 0.48:
        return rng.choice([0.0, -0.5, 1e100, 1.5e-7, 3.14])
    if r < 0.54:
        return rng.choice([True, False, None])
    if r < 0.6:
        return rng.choice(["'", "<", ">", "&", "</script>", "<!--", " ", "'\"<>&", "\\'", "&#39;"])
    if r < 0.8:
        return [json_value(rng, depth + 1) for _ in range(rng.randint(0, 4))]
    d = {}
    for _ in range(rng.randint(0, 4)):
        d[hostile(rng, 0, 3, surrogate=True)] = json_value(rng, depth + 1)
    return d


KEY_SAFE = ["id", "class", "data-x", "title", "aria-label", "X", "a.b", "xml:lang", "k1", "é", "_u"]
KEY_BAD_CHARS = [" ", "\t", "\n", "\r", "\f", "/", ">", "="]
KEY_ODD_CHARS = ["\v", "\x1c", "\x85", "\xa0", " ", "<", '"', "'", "&", "`", "\\", "\x7f", ";", ":"]


def xml_key(rng):
    r = rng.random()
    base = rng.choice(KEY_SAFE)
    if r < 0.45:
        return base
    if r < 0.75:
        c = rng.choice(KEY_BAD_CHARS)
    else:
        c = rng.choice(KEY_ODD_CHARS)
    pos = rng.choice(["pre", "mid", "post", "inj"])
    if pos == "pre":
        return c + base
    if pos == "post":
        return base + c
    if pos == "mid":
        k = rng.randint(1, max(1, len(base) - 1))
        return base[:k] + c + base[k:]
    return base + c + rng.choice(["onclick=alert(1)", "x", "y=\"1\"", "><script>", "/"])


def xml_value(rng):
    r = rng.random()
    if r < 0.6:
        return ["s", hostile(rng, 0, 6)]
    if r < 0.7:
        return ["i", rng.choice([0, 1, -5, 10**20])]
    if r < 0.76:
        return ["f", rng.choice([0.5, -1.25, 1e30])]
    if r < 0.82:
        return ["b", rng.random() < 0.5]
    if r < 0.91:
        return ["none"]
    return ["undef"]


def xml_dict(rng):
    n = rng.randint(0, 4)
    items = []
    seen = []
    for _ in range(n):
        k = xml_key(rng)
        if k in seen or k == "":
            continue
        seen.append(k)
        items.append([k, xml_value(rng)])
    return items


def nonce(rng, used):
    while True:
        n = str(rng.randint(10000, 99999))
        if all(n not in u and u not in n for u in used):
            used.append(n)
            return n


def nonced(rng, n, extra=""):
    """A plain string whose every markup character is surrounded by nonce n."""
    k = rng.randint(1, 4)
    out = [n]
    for _ in range(k):
        out.append(rng.choice(["<", ">", '"', "'", "<", "&"]))
        out.append(n)
        if extra and rng.random() < 0.3:
            out.append(rng.choice(extra))
            out.append(n)
    return "".join(out)
