"""C18 workload tables: callables IMPLEMENTED IN C under environments whose
overridden is_safe_callable rejects them.

The recording callables of the other C18 parts are Python-level objects that
carry marker attributes.  An application's overridden safety check, however,
typically bans callables that cannot carry any marker: builtin functions
(len, getattr, setattr ...), bound builtin methods (alist.append,
adict.update, deque.append, dict.fromkeys), method descriptors (list.append),
slot wrappers (list.__iadd__, object.__str__) and method wrappers
(alist.__iadd__), functools.partial objects, operator.methodcaller /
itemgetter / attrgetter objects, classes implemented in C (dict, list, deque,
zip, map, frozenset).

A C callable cannot count its own invocations, so every kind comes with an
observation made from the harness:
  * a side effect on a container the harness holds (the list really got longer),
  * or a recording Python object handed in as the ARGUMENT (len(rx) runs
    rx.__len__, sorted(rx) runs rx.__iter__, methodcaller('ping')(rx) runs
    rx.ping, partial(rec)() runs rec ...).

Policies (styles of overridden is_safe_callable; `armed` per render):
  deny_name           deny-list of qualified names ('list.append', 'len', 'partial', 'deque')
  deny_c_level        type ban: nothing implemented in C may be called
  allow_python_level  allow-list: Python functions / methods / instances and classes
                      defined in Python, plus a few named builtins (range, dict)
"""
from __future__ import annotations

import collections
import functools
import operator
import types

C_CALLABLE_TYPES = (types.BuiltinFunctionType, types.MethodDescriptorType,
                    types.WrapperDescriptorType, types.MethodWrapperType,
                    types.ClassMethodDescriptorType, functools.partial,
                    operator.methodcaller, operator.itemgetter, operator.attrgetter)
C_MODULES = frozenset(["builtins", "collections", "_collections", "itertools", "functools",
                       "_functools", "operator", "_operator"])
POLICIES = ["deny_name", "deny_c_level", "allow_python_level"]
#: builtins an allow-list application would typically admit (the call sites of the
#: grammar use them); the target of a case is always taken out
ALLOWED_BUILTINS = frozenset(["range", "dict"])


def ident_of(obj):
    return getattr(obj, "__qualname__", None) or type(obj).__qualname__


def is_c_level(obj):
    if isinstance(obj, (types.FunctionType, types.MethodType)):
        return False
    if isinstance(obj, C_CALLABLE_TYPES):
        return True
    t = obj if isinstance(obj, type) else type(obj)
    return t.__module__ in C_MODULES


def same_callable(a, b):
    """identity, or equality for bound methods of the same receiver (every
    attribute fetch creates a new bound-method object)"""
    if a is b:
        return True
    try:
        return type(a) is type(b) and getattr(a, "__self__", a) is getattr(b, "__self__", b) \
            and a == b
    except Exception:
        return False


def make_env_class(base):
    class CPolicyEnv(base):
        """is_safe_callable overridden in three styles; vt_policy None = not armed
        (everything the base class admits is admitted)."""
        vt_policy = None
        vt_names = frozenset()

        def is_safe_callable(self, obj):
            p = self.vt_policy
            verdict = True
            if p == "deny_name":
                verdict = ident_of(obj) not in self.vt_names
            elif p == "deny_c_level":
                verdict = not is_c_level(obj)
            elif p == "allow_python_level":
                verdict = (not is_c_level(obj)) or ident_of(obj) in self.vt_names
            if not verdict:
                self.vt_rejected.append(obj)
                return False
            return super().is_safe_callable(obj)

    return CPolicyEnv


def arm(env, policy, target):
    env.vt_rejected = []
    env.vt_policy = policy
    if policy == "deny_name":
        env.vt_names = frozenset([ident_of(target)])
    elif policy == "allow_python_level":
        env.vt_names = ALLOWED_BUILTINS - {ident_of(target)}
    else:
        env.vt_names = frozenset()


def disarm(env):
    env.vt_rejected = []
    env.vt_policy = None
    env.vt_names = frozenset()


class RecObj:
    """Python object handed in as the ARGUMENT of a C callable: every protocol
    method the C callable may run on it is counted."""

    def __init__(self):
        self.n = 0

    def __len__(self):
        self.n += 1
        return 1

    def __iter__(self):
        self.n += 1
        return iter(["a"])

    def __next__(self):
        self.n += 1
        return "a"

    def __getitem__(self, i):
        self.n += 1
        if i == 0:
            return "a"
        raise IndexError(i)

    def __repr__(self):
        self.__dict__["n"] += 1
        return "RX"

    def ping(self, *a, **k):
        self.n += 1
        return 1

    def __getattr__(self, name):
        if name == "zz":
            self.__dict__["n"] += 1
            return 1
        raise AttributeError(name)


class Plain:
    pass


def _grown(box, start=0):
    return lambda: len(box) - start


#: kind -> builder(rx) -> (callable, argument text, extra render data, probe () -> int)
#: rx = the RecObj of the render, in the context as `rx`
def _kinds():
    K = {}

    # ---- bound builtin methods (types.BuiltinFunctionType with a receiver)
    def bbm_list_append(rx):
        box = []
        return box.append, "1", {}, _grown(box)

    def bbm_list_extend(rx):
        box = []
        return box.extend, "[1, 2]", {}, _grown(box)

    def bbm_list_insert(rx):
        box = []
        return box.insert, "0, 1", {}, _grown(box)

    def bbm_dict_setdefault(rx):
        box = {}
        return box.setdefault, "'k', 1", {}, _grown(box)

    def bbm_dict_update(rx):
        box = {}
        return box.update, "{'k': 1}", {}, _grown(box)

    def bbm_set_add(rx):
        box = set()
        return box.add, "1", {}, _grown(box)

    def bbm_deque_append(rx):
        box = collections.deque()
        return box.append, "1", {}, _grown(box)

    def bbm_deque_appendleft(rx):
        box = collections.deque()
        return box.appendleft, "1", {}, _grown(box)

    def bbm_classmethod_dict_fromkeys(rx):
        return dict.fromkeys, "rx", {}, lambda: rx.n

    def bbm_str_join(rx):
        return "-".join, "rx", {}, lambda: rx.n

    # ---- builtin functions
    def bf_len(rx):
        return len, "rx", {}, lambda: rx.n

    def bf_sorted(rx):
        return sorted, "rx", {}, lambda: rx.n

    def bf_repr(rx):
        return repr, "rx", {}, lambda: rx.n

    def bf_next(rx):
        return next, "rx", {}, lambda: rx.n

    def bf_getattr(rx):
        return getattr, "rx, 'zz'", {}, lambda: rx.n

    def bf_setattr(rx):
        hx = Plain()
        return setattr, "hx, 'a', 1", {"hx": hx}, lambda: len(vars(hx))

    def bf_operator_setitem(rx):
        box = {}
        return operator.setitem, "bx, 'k', 1", {"bx": box}, _grown(box)

    # ---- method descriptors / slot wrappers / method wrappers
    def md_list_append(rx):
        box = []
        return list.append, "bx, 1", {"bx": box}, _grown(box)

    def md_dict_update(rx):
        box = {}
        return dict.update, "bx, {'k': 1}", {"bx": box}, _grown(box)

    def md_str_join(rx):
        return str.join, "'-', rx", {}, lambda: rx.n

    def sw_list_iadd(rx):
        box = []
        return list.__iadd__, "bx, [1]", {"bx": box}, _grown(box)

    def sw_object_str(rx):
        return object.__str__, "rx", {}, lambda: rx.n

    def mw_list_iadd(rx):
        box = []
        return box.__iadd__, "[1]", {}, _grown(box)

    def mw_dict_setitem(rx):
        box = {}
        return box.__setitem__, "'k', 1", {}, _grown(box)

    # ---- functools.partial objects
    def partial_of_builtin_method(rx):
        box = []
        return functools.partial(box.append), "1", {}, _grown(box)

    def partial_of_builtin_function(rx):
        return functools.partial(len), "rx", {}, lambda: rx.n

    def partial_of_python_recorder(rx):
        # (not a method of rx: the repr of a partial shows its function, and
        # repr(rx) counts)
        hits = []

        def rec(*a, **k):
            hits.append(1)
            return 1
        return functools.partial(rec, 0), "", {}, _grown(hits)

    # ---- classes implemented in C
    def cc_deque(rx):
        return collections.deque, "rx", {}, lambda: rx.n

    def cc_list(rx):
        return list, "rx", {}, lambda: rx.n

    def cc_dict(rx):
        return dict, "rx", {}, lambda: rx.n

    def cc_frozenset(rx):
        return frozenset, "rx", {}, lambda: rx.n

    def cc_zip(rx):
        return zip, "rx", {}, lambda: rx.n

    def cc_map(rx):
        return map, "ident, rx", {}, lambda: rx.n

    # ---- operator objects
    def op_methodcaller(rx):
        return operator.methodcaller("ping"), "rx", {}, lambda: rx.n

    def op_itemgetter(rx):
        return operator.itemgetter(0), "rx", {}, lambda: rx.n

    def op_attrgetter(rx):
        return operator.attrgetter("zz"), "rx", {}, lambda: rx.n

    for k, v in list(locals().items()):
        if callable(v) and k != "K" and not k.startswith("_"):
            K[k] = v
    return K


KIND_BUILDERS = _kinds()
KINDS = list(KIND_BUILDERS)
GROUPS = {"bbm": "bound_builtin_method", "bf": "builtin_function", "md": "method_descriptor",
          "sw": "slot_wrapper", "mw": "method_wrapper", "partial": "partial", "cc": "c_class",
          "op": "operator_object"}


def group_of(kind):
    return GROUPS[kind.split("_", 1)[0]]


def build(kind):
    """-> (callable, argument text, render data incl. rx, probe)"""
    rx = RecObj()
    f, args, data, probe = KIND_BUILDERS[kind](rx)
    data = dict(data, rx=rx)
    return f, args, data, probe
