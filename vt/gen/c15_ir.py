"""C15 template IR: schema, generic tree walking and rendering to Jinja source.

A *case* is a JSON-able dict:
  mode     'static' | 'selector' | 'runtime'
  flag     'literal' | 'volatile'       (runtime only: {% autoescape true|flag %})
  layout   'file' | 'stmt'              (runtime only: one region around a whole file, or one
                                         region per top-level statement and inside every block body)
  env      {'sandbox','async','finalize','optimized'}
  extends  bool                          (main template is a child of a generated base)
  units    [stmts, ...]
  data     {name: value}                 context data (plain str / list / dict / list of dict)
  i18n     None | {'newstyle': bool, 'install': 'null'|'object'|'uobject'|'callables',
                   'markup': bool, 'dup': bool, 'trim_policy': bool}
                                         (the i18n extension is loaded and gettext callables are
                                         installed that way; see c15.py build_env / Translations)
Nodes are lists [tag, ...]; SCHEMA gives the kind of every field:
  '-' opaque, 'E' expr, 'E?' optional expr, 'Es' list of expr, 'args' list of [kw|None, expr],
  'kv' list of [key, expr] (key: a str = metacharacter-free literal key, or an expr node = a
  data-controlled / nonce'd literal key), 'S' list of statements, 'X' xblock child spec.
"""
from __future__ import annotations

SCHEMA = {
    # ---- expressions
    "d": ["-"], "L": ["-"], "D": ["-"], "LD": ["-"], "lit": ["-"], "klit": ["-"],
    "num": ["-"], "bool": ["-"], "none": [], "hole": [], "var": ["-"],
    "f": ["-", "E", "args"],
    "bin": ["-", "E", "E"],
    "m": ["-", "E", "Es"],
    "list": ["Es"], "tuple": ["Es"], "dict": ["kv"],
    "dictof": ["-", "E"],          # dict(**E) | dict(E) | dict(E|items) | dict(E.items())
    "cond": ["E", "E", "E"], "test": ["-", "E", "Es"],
    "idx": ["E", "-"], "slice": ["E", "-", "-"],
    "cap.setblock": ["S"], "cap.setexpr": ["E"], "cap.macro": ["S"],
    "cap.macro_arg": ["E", "E", "-"], "cap.import_macro": ["S", "-"],
    "cap.import_var": ["E"], "cap.selfblock": ["S"], "cap.joiner": ["E"], "cap.nsattr": ["E"],
    "cap.nsobj": ["E"],
    "cap.fsetblock": ["-", "args", "S"],   # {% set v | FILTER(args) %}S{% endset %}  -> v
    # gettext-family call: [gt, func, opts, [[name, E], ...], count E?]; func in GT_FUNCS,
    # opts = {'ctx': str|None, 'old': 'format'|'mod'}; message texts are metacharacter-free
    # template text derived from the variable names (see Renderer.gt)
    "gt": ["-", "-", "args", "E?"],
    # ---- statements
    "out": ["E"], "text": ["-"],
    "if": ["S"], "for1": ["S"], "with": ["S"],
    "fblock": ["-", "args", "S"],
    "callblock": ["S", "E"], "callarg": ["E", "E"],
    "foreach": ["E", "E", "-", "E?", "E?"],
    "forkv": ["E", "-", "E", "E"],
    "include": ["S"], "block": ["S"],
    "xblock": ["S", "X"],
    # {% trans ["ctx"] [trimmed|notrimmed] [cname=count,] [name=E, ...] %}text {{ name }}
    # [{% pluralize %}...]{% endtrans %}: [trans, opts, [[name|None, E], ...], count E?];
    # a None name with a bare data leaf is an implicitly referenced context variable;
    # opts = {'ctx': str|None, 'trim': None|'trimmed'|'notrimmed', 'cname': str, 'ws': bool,
    #         'pl_explicit': bool}
    "trans": ["-", "args", "E?"],
}
GT_FUNCS = ("gettext", "_", "ngettext", "pgettext", "npgettext")
STMT_TAGS = {"out", "text", "if", "for1", "with", "fblock", "callblock", "callarg", "foreach",
             "forkv", "include", "block", "xblock", "trans"}


def tag_of(node):
    if node[0] == "cap":
        return "cap." + node[1]
    return node[0]


def fields(node):
    """-> [(index_in_node, kind)]"""
    t = tag_of(node)
    off = 2 if node[0] == "cap" else 1
    return [(off + i, k) for i, k in enumerate(SCHEMA[t])]


def children(node):
    """Yield (path_step, child, sort) with sort 'E' or 'S' (a statement LIST).
    path_step is a tuple of indexes to reach the child from node."""
    for i, k in fields(node):
        v = node[i]
        if k == "E" or (k == "E?" and v is not None):
            yield (i,), v, "E"
        elif k == "Es":
            for j, e in enumerate(v):
                yield (i, j), e, "E"
        elif k == "args":
            for j, (_, e) in enumerate(v):
                yield (i, j, 1), e, "E"
        elif k == "kv":
            for j, (key, e) in enumerate(v):
                if isinstance(key, list):
                    yield (i, j, 0), key, "E"
                yield (i, j, 1), e, "E"
        elif k == "S":
            yield (i,), v, "S"
        elif k == "X" and v is not None:
            if v[0] == "super":
                yield (i, 1), v[1], "E"
            elif v[0] == "own":
                yield (i, 1), v[1], "S"


def get_at(root, path):
    for p in path:
        root = root[p]
    return root


def set_at(root, path, value):
    """Return a deep-ish copy of root with the node at path replaced."""
    if not path:
        return value
    cp = list(root)
    cp[path[0]] = set_at(root[path[0]], path[1:], value)
    return cp


def walk(node, sort, path=()):
    """Pre-order over everything reachable: yields (path, node, sort).  For a
    statement list the list itself is yielded with sort 'S' and then each stmt
    with sort 's'."""
    if sort == "S":
        yield path, node, "S"
        for j, st in enumerate(node):
            yield from walk(st, "s", path + (j,))
        return
    yield path, node, sort
    for step, ch, so in children(node):
        yield from walk(ch, so, path + step)


def leaf_strings(node, data):
    """Strings carried by a leaf node."""
    t = node[0]
    if t == "lit":
        return [node[1]]
    if t == "d":
        return [data.get(node[1], "")]
    if t == "L":
        return list(data.get(node[1], []))
    if t == "D":
        dd = data.get(node[1], {})
        return list(dd.values()) + [k for k in dd if isinstance(k, str)]
    if t == "LD":
        return [v for row in data.get(node[1], []) for v in row.values()]
    return []


def uses(case, what):
    """Does any filter named `what` occur in the case?"""
    for u in case["units"]:
        for _, n, so in walk(u, "S"):
            if so != "S" and n[0] in ("f", "fblock") and n[1] == what:
                return True
            if so != "S" and n[0] == "cap" and n[1] == "fsetblock" and n[2] == what:
                return True
            if so != "S" and n[0] == "f" and n[1] == "map":
                for kw, e in n[3]:
                    if kw is None and e[0] == "klit" and e[1] == what:
                        return True
    return False


# ------------------------------------------------------------------ render
def jlit(s: str) -> str:
    out = []
    for c in s:
        if c == "\\":
            out.append("\\\\")
        elif c == '"':
            out.append('\\"')
        elif c == "\n":
            out.append("\\n")
        elif c == "\r":
            out.append("\\r")
        elif c == "\t":
            out.append("\\t")
        elif ord(c) < 32 or ord(c) > 126:
            out.append("\\u%04x" % ord(c))
        else:
            out.append(c)
    return '"' + "".join(out) + '"'


ATOMS = {"d", "L", "D", "LD", "lit", "klit", "num", "bool", "none", "hole", "var", "list",
         "tuple", "dict", "dictof", "cap", "idx", "slice", "m", "gt"}


def xmlattr_key_strings(case):
    """Key strings that reach an xmlattr filter as attribute NAMES by construction:
    keys of dict displays / data dicts / dict(...) calls that are the subject of
    an xmlattr filter (directly or through a set-expression capture).  -> [(form, str)]"""
    data = case["data"]
    out = []

    def from_dict_expr(e, form):
        if e[0] == "dict":
            for key, _ in e[1]:
                if isinstance(key, str):
                    out.append(("fixed", key))
                elif key[0] == "lit":
                    out.append((form or "literal-key", key[1]))
                elif key[0] == "d":
                    out.append((form or "data-key", data.get(key[1], "")))
        elif e[0] == "D":
            for k in data.get(e[1], {}):
                out.append((form or "data-dict", k))
        elif e[0] == "dictof":
            from_dict_expr(e[2], "dict-call:" + e[1])
        elif e[0] == "cap" and e[1] == "setexpr":
            from_dict_expr(e[2], form)

    for u in case["units"]:
        for _, n, so in walk(u, "S"):
            if so != "S" and n[0] == "f" and n[1] == "xmlattr":
                from_dict_expr(n[2], None)
    return out


class Renderer:
    """Turns a case into {template name: source}, the main template name and
    the render context."""

    def __init__(self, case):
        self.case = case
        self.mode = case["mode"]
        self.runtime = self.mode == "runtime"
        self.flag_src = "flag" if case.get("flag") == "volatile" else "true"
        self.layout = case.get("layout", "file")
        self.n = 0
        self.files = {}
        exts = [".html", ".HTM", ".xml", ".Html"] if self.mode == "selector" else ["", "", "", ""]
        self.exts = exts

    # -- helpers
    def fresh(self, prefix):
        self.n += 1
        return f"{prefix}{self.n}"

    def fname(self, prefix):
        self.n += 1
        return f"{prefix}{self.n}{self.exts[self.n % len(self.exts)]}"

    def region(self, src):
        if not self.runtime or not src:
            return src
        return "{% autoescape " + self.flag_src + " %}" + src + "{% endautoescape %}"

    def block_body(self, src):
        # inside every block body when layout is 'stmt'
        if self.runtime and self.layout == "stmt":
            return self.region(src)
        return src

    def file_body(self, stmts, sep=""):
        """Top-level content of a template file with the regions the layout asks for."""
        if not self.runtime:
            return sep.join(self.stmt(s) for s in stmts)
        if self.layout == "file":
            return self.region(sep.join(self.stmt(s) for s in stmts))
        out = []
        for s in stmts:
            if s[0] in ("block", "xblock"):
                out.append(self.stmt(s))
            else:
                out.append(self.region(self.stmt(s)))
        return sep.join(out)

    # -- expressions: returns (prelude, src)
    def expr(self, e, hole=None):
        t = e[0]
        if t in ("d", "L", "D", "LD", "var"):
            return "", e[1]
        if t in ("lit", "klit"):
            return "", jlit(e[1])
        if t == "num":
            return "", repr(e[1])
        if t == "bool":
            return "", "true" if e[1] else "false"
        if t == "none":
            return "", "none"
        if t == "hole":
            return "", hole if hole is not None else "none"
        if t == "f":
            p, s = self.sub(e[2], hole)
            pa, a = self.args(e[3], hole)
            return p + pa, f"{s}|{e[1]}" + (f"({a})" if a else "")
        if t == "bin":
            pl, l = self.sub(e[2], hole)
            pr, r = self.sub(e[3], hole)
            return pl + pr, f"{l} {e[1]} {r}"
        if t == "m":
            p, s = self.sub(e[2], hole)
            ps, parts = "", []
            for a in e[3]:
                pp, x = self.expr(a, hole)
                ps += pp
                parts.append(x)
            return p + ps, f"{s}.{e[1]}({', '.join(parts)})"
        if t in ("list", "tuple"):
            ps, parts = "", []
            for a in e[1]:
                pp, x = self.expr(a, hole)
                ps += pp
                parts.append(x)
            if t == "list":
                return ps, "[" + ", ".join(parts) + "]"
            return ps, "(" + ", ".join(parts) + ("," if len(parts) == 1 else "") + ")"
        if t == "dict":
            ps, parts = "", []
            for k, a in e[1]:
                if isinstance(k, str):
                    ks = jlit(k)
                else:
                    pk, ks = self.sub(k, hole)
                    ps += pk
                pp, x = self.expr(a, hole)
                ps += pp
                parts.append(f"{ks}: {x}")
            return ps, "{" + ", ".join(parts) + "}"
        if t == "dictof":
            p, s = self.sub(e[2], hole)
            how = e[1]
            if how == "splat":
                return p, f"dict(**{s})"
            if how == "copy":
                return p, f"dict({s})"
            if how == "items":
                return p, f"dict({s}|items)"
            if how == "items_method":
                return p, f"dict({s}.items())"
            raise AssertionError(e)
        if t == "cond":
            pt, c = self.expr(e[1], hole)
            pa, a = self.sub(e[2], hole)
            pb, b = self.sub(e[3], hole)
            return pt + pa + pb, f"{a} if {c} else {b}"
        if t == "test":
            p, s = self.sub(e[2], hole)
            ps, parts = "", []
            for a in e[3]:
                pp, x = self.expr(a, hole)
                ps += pp
                parts.append(x)
            return p + ps, f"{s} is {e[1]}" + (f"({', '.join(parts)})" if parts else "")
        if t == "idx":
            p, s = self.sub(e[1], hole)
            k = e[2]
            return p, f"{s}[{k}]" if isinstance(k, int) else f"{s}.{k}"
        if t == "slice":
            p, s = self.sub(e[1], hole)
            a = "" if e[2] is None else str(e[2])
            b = "" if e[3] is None else str(e[3])
            return p, f"{s}[{a}:{b}]"
        if t == "cap":
            return self.cap(e, hole)
        if t == "gt":
            return self.gt(e, hole)
        raise AssertionError(e)

    def gt(self, e, hole):
        """A gettext-family call with keyword variables.  New-style callables take the
        variables as keyword arguments; old-style ones return the bare (translated) string,
        which the template formats itself with |format(...) or % {...} (docs/extensions.rst)."""
        _, func, opts, args, num = e
        newstyle = bool((self.case.get("i18n") or {}).get("newstyle"))
        ps, kws = "", []
        for name, a in args:
            pp, x = self.expr(a, hole)
            ps += pp
            kws.append((name, x))
        plural = func in ("ngettext", "npgettext")
        nsrc = None
        if plural:
            pn, nsrc = self.sub(num if num is not None else ["num", 2], hole)
            ps += pn
        body = " lorem ".join(f"%({n})s" for n, _ in kws) or "k"
        sing = ("%(num)s ab " if plural else "ab ") + body
        plur = "%(num)s abs " + body
        cargs = []
        if func in ("pgettext", "npgettext"):
            cargs.append(jlit(opts.get("ctx") or "ctx"))
        cargs.append(jlit(sing))
        if plural:
            cargs += [jlit(plur), nsrc]
        if newstyle:
            cargs += [f"{n}={x}" for n, x in kws]
            return ps, f"{func}({', '.join(cargs)})"
        call = f"{func}({', '.join(cargs)})"
        fmt = list(kws)
        if plural:
            fmt.insert(0, ("num", nsrc))
        if not fmt:
            return ps, call
        if opts.get("old") == "mod":
            return ps, "(" + call + " % {" + ", ".join(f"{jlit(n)}: {x}" for n, x in fmt) + "})"
        return ps, "(" + call + "|format(" + ", ".join(f"{n}={x}" for n, x in fmt) + "))"

    def sub(self, e, hole=None):
        p, s = self.expr(e, hole)
        if e[0] not in ATOMS:
            s = "(" + s + ")"
        return p, s

    def args(self, args, hole=None):
        ps, parts = "", []
        for kw, a in args:
            pp, x = self.expr(a, hole)
            ps += pp
            parts.append(x if kw is None else f"{kw}={x}")
        return ps, ", ".join(parts)

    def cap(self, e, hole):
        k = e[1]
        if k == "setblock":
            v = self.fresh("v")
            return "{% set " + v + " %}" + self.stmts(e[2]) + "{% endset %}", v
        if k == "fsetblock":
            v = self.fresh("v")
            p, a = self.args(e[3], hole)
            return (p + "{% set " + v + " | " + e[2] + ("(" + a + ")" if a else "") + " %}" + self.stmts(e[4])
                    + "{% endset %}"), v
        if k == "setexpr":
            v = self.fresh("v")
            p, s = self.expr(e[2], hole)
            return p + "{% set " + v + " = " + s + " %}", v
        if k == "macro":
            m = self.fresh("m")
            return "{% macro " + m + "() %}" + self.stmts(e[2]) + "{% endmacro %}", m + "()"
        if k == "macro_arg":
            m = self.fresh("m")
            how = e[4]
            pa, a = self.expr(e[2], hole)
            if how == "varargs":
                pp, post = self.expr(e[3], "varargs[0]")
                sig, call = "", a
            elif how == "kwargs":
                pp, post = self.expr(e[3], "kwargs.q")
                sig, call = "", "q=" + a
            elif how == "default":
                pp, post = self.expr(e[3], "x")
                sig, call = "x=" + a, ""
            elif how == "kw":
                pp, post = self.expr(e[3], "x")
                sig, call = "x", "x=" + a
            else:
                pp, post = self.expr(e[3], "x")
                sig, call = "x", a
            return (pa + "{% macro " + m + "(" + sig + ") %}" + pp + "[{{ " + post + " }}]{% endmacro %}",
                    f"{m}({call})")
        if k == "import_macro":
            fn = self.fname("mod")
            body = self.stmts(e[2])
            self.files[fn] = "{% macro f() %}" + self.region(body) + "{% endmacro %}"
            if e[3] == "from":
                a = self.fresh("fi")
                return "{% from " + jlit(fn) + " import f as " + a + " with context %}", a + "()"
            a = self.fresh("mo")
            return "{% import " + jlit(fn) + " as " + a + " with context %}", a + ".f()"
        if k == "import_var":
            fn = self.fname("mod")
            p, s = self.expr(e[2], None)
            self.files[fn] = p + "{% set v = " + s + " %}"
            a = self.fresh("mo")
            return "{% import " + jlit(fn) + " as " + a + " with context %}", a + ".v"
        if k == "selfblock":
            b = self.fresh("b")
            return "{% block " + b + " %}" + self.block_body(self.stmts(e[2])) + "{% endblock %}:", f"self.{b}()"
        if k == "joiner":
            v = self.fresh("j")
            p, s = self.expr(e[2], hole)
            return p + "{% set " + v + " = joiner(" + s + ") %}{{ " + v + "() }}", v + "()"
        if k == "nsattr":
            v = self.fresh("ns")
            p, s = self.expr(e[2], hole)
            return p + "{% set " + v + " = namespace(a=" + s + ") %}", v + ".a"
        if k == "nsobj":
            v = self.fresh("ns")
            p, s = self.expr(e[2], hole)
            return p + "{% set " + v + " = namespace(a=" + s + ") %}", v
        raise AssertionError(e)

    # -- statements
    def stmts(self, ss):
        return "".join(self.stmt(s) for s in ss)

    def stmt(self, s):
        t = s[0]
        if t == "out":
            p, x = self.expr(s[1])
            return p + "{{ " + x + " }}"
        if t == "text":
            return s[1]
        if t == "if":
            return "{% if flag %}" + self.stmts(s[1]) + "{% endif %}"
        if t == "for1":
            return "{% for i9 in range(2) %}" + self.stmts(s[1]) + "{% endfor %}"
        if t == "with":
            return "{% with w9 = 1 %}" + self.stmts(s[1]) + "{% endwith %}"
        if t == "fblock":
            p, a = self.args(s[2])
            return p + "{% filter " + s[1] + ("(" + a + ")" if a else "") + " %}" + self.stmts(s[3]) + "{% endfilter %}"
        if t == "callblock":
            m = self.fresh("m")
            p, post = self.expr(s[2], "caller()")
            return ("{% macro " + m + "() %}" + p + "[{{ " + post + " }}]{% endmacro %}"
                    "{% call " + m + "() %}" + self.stmts(s[1]) + "{% endcall %}")
        if t == "callarg":
            m = self.fresh("m")
            pa, a = self.expr(s[1])
            pp, post = self.expr(s[2], "x")
            return (pa + "{% macro " + m + "() %}[{{ caller(" + a + ") }}]{% endmacro %}"
                    "{% call(x) " + m + "() %}" + pp + "{{ " + post + " }}{% endcall %}")
        if t == "foreach":
            pl, l = self.expr(s[1])
            pp, post = self.expr(s[2], "x")
            body = pp + "{{ " + post + " }}"
            if s[4] is not None and s[5] is not None:
                pa, a = self.expr(s[4])
                pb, b = self.expr(s[5])
                body = pa + pb + body + "{{ loop.cycle(" + a + ", " + b + ") }}"
            if s[3]:
                body += "{% if loop.depth0 < 1 %}{{ loop(" + l + ") }}{% endif %}"
            return pl + "{% for x in " + l + (" recursive" if s[3] else "") + " %}" + body + "{% endfor %}"
        if t == "forkv":
            pd, d = self.sub(s[1])
            how = s[2]
            it = {"items": d + ".items()", "filter": d + "|items", "dictsort": d + "|dictsort"}[how]
            pk, postk = self.expr(s[3], "k")
            pv, postv = self.expr(s[4], "v")
            return pd + "{% for k, v in " + it + " %}" + pk + pv + "{{ " + postk + " }}={{ " + postv + " }};{% endfor %}"
        if t == "include":
            fn = self.fname("inc")
            self.files[fn] = self.file_body(s[1])
            return "{% include " + jlit(fn) + " %}"
        if t == "block":
            b = self.fresh("b")
            return "{% block " + b + " %}" + self.block_body(self.stmts(s[1])) + "{% endblock %}"
        if t == "trans":
            return self.trans(s)
        if t == "xblock":
            # outside extends mode: an inline block holding the base statements
            b = self.fresh("b")
            return "{% block " + b + " %}" + self.block_body(self.stmts(s[1])) + "{% endblock %}"
        raise AssertionError(s)

    def trans(self, s):
        _, opts, args, count = s
        ps, head, refs = "", [], []
        cname = opts.get("cname") or "num"
        if count is not None:
            pc, c = self.expr(count)
            ps += pc
            head.append(f"{cname}={c}")
        for name, a in args:
            if name is None and a[0] in ("d", "var"):
                refs.append(a[1])          # implicitly referenced context variable
                continue
            nm = self.fresh("t")
            pa, x = self.expr(a)
            ps += pa
            head.append(f"{nm}={x}")
            refs.append(nm)
        ws = bool(opts.get("ws"))

        def text(word):
            parts = []
            if count is not None:
                parts.append("{{ " + cname + " }}")
            parts.append(word)
            for i, r in enumerate(refs):
                parts.append("{{ " + r + " }}")
                if i + 1 < len(refs):
                    parts.append("lorem")
            if ws:
                return "\n   " + "\n\t  ".join(parts) + " 5% k\n "
            return " ".join(parts)

        tag = "{% trans"
        if opts.get("ctx") is not None:
            tag += " " + jlit(opts["ctx"])
        if opts.get("trim"):
            tag += " " + opts["trim"]
        if head:
            tag += " " + ", ".join(head)
        src = ps + tag + " %}" + text("ab")
        if count is not None:
            src += "{% pluralize" + (" " + cname if opts.get("pl_explicit") else "") + " %}" + text("abs")
        return src + "{% endtrans %}"

    # -- whole case
    def render(self):
        case = self.case
        main = "main" + self.exts[0]
        sep = "\n--u--\n"
        if not case.get("extends"):
            units = []
            for u in case["units"]:
                units.append(self.file_body(u))
            self.files[main] = sep.join(units)
        else:
            base = "base" + self.exts[2]
            bparts, cparts = [], []
            for i, u in enumerate(case["units"]):
                bn = f"u{i}"
                if len(u) == 1 and u[0][0] == "xblock":
                    xb = u[0]
                    bparts.append("{% block " + bn + " %}" + self.block_body(self.stmts(xb[1])) + "{% endblock %}")
                    ch = xb[2]
                    if ch is None:
                        continue
                    if ch[0] == "super":
                        p, post = self.expr(ch[1], "super()")
                        cparts.append("{% block " + bn + " %}" + self.region(p + "[{{ " + post + " }}]") + "{% endblock %}")
                    else:
                        cparts.append("{% block " + bn + " %}" + self.region(self.stmts(ch[1])) + "{% endblock %}")
                else:
                    bparts.append("{% block " + bn + " %}{% endblock %}")
                    cparts.append("{% block " + bn + " %}" + self.region(self.stmts(u)) + "{% endblock %}")
            btxt = sep.join(bparts)
            if self.runtime and self.layout == "file":
                btxt = self.region(btxt)
            self.files[base] = btxt
            self.files[main] = "{% extends " + jlit(base) + " %}" + "".join(cparts)
        ctx = dict(case["data"])
        ctx["flag"] = True
        return self.files, main, ctx
