"""A mixed stream of generated programs for the differential checks
(C09, C10, C16, C29, C30, C31, C32): expression templates, statement programs,
inheritance hierarchies and include/import sets.

A case is JSON-able:
  {"kind": ..., "asts": {name: body}, "main": name, "data": recipe, "globals": {...}}
"""
from __future__ import annotations

from vt.gen import exprgen, jast, stmtgen, tplgen

EXTENSIONS = ["jinja2.ext.loopcontrols"]


def gen_case(rng, kinds=("expr", "stmt", "inherit", "incimp", "loop"), stmt_opts=None):
    k = kinds[rng.randrange(len(kinds))]
    if k == "expr":
        g = exprgen.Gen(rng)
        body = []
        for i in range(rng.randint(1, 4)):
            body.append(["text", f"[e{i}:"])
            body.append(["out", g.expr(rng.choice([2, 3, 4]))])
            body.append(["text", "]"])
        recipe, _ = exprgen.make_data(rng)
        return {"kind": k, "asts": {"main": body}, "main": "main", "data": {"$expr": recipe}, "globals": {}}
    if k == "stmt":
        g = stmtgen.SGen(rng, stmt_opts)
        body = g.program()
        return {"kind": k, "asts": {"main": body}, "main": "main", "data": stmtgen.make_data(rng),
                "globals": {}}
    if k == "inherit":
        g = tplgen.HGen(rng)
        templates, leaf, data, shape = g.hierarchy()
        return {"kind": k, "asts": templates, "main": leaf, "data": data, "globals": {}}
    if k == "loop":
        from vt.checks import c07

        extra = c07.ATTRS + ["cycle", "changed", "depth"]
        if rng.random() < 0.6:
            sc = [tuple(rng.choice(extra) for _ in range(rng.randint(1, 3)))]
        else:
            sc = [tuple(rng.choice(c07.ATTRS) for _ in range(rng.randint(0, 2))) for _ in range(3)]
        body = c07.loop_ast(sc, rng.choice([None, "odd", "gt"]), rng.random() < 0.5)
        data = {"seq": [rng.randint(0, 9) for _ in range(rng.randint(0, 5))], "k": rng.randint(0, 9)}
        return {"kind": k, "asts": {"main": body}, "main": "main", "data": data, "globals": {}}
    if k == "incimp":
        g = tplgen.IGen(rng)
        templates, data, glob = g.tset()
        return {"kind": k, "asts": templates, "main": "main", "data": data, "globals": glob}
    raise ValueError(k)


def sources(case, sx=jast.DEFAULT):
    return {n: jast.ps(b, sx) for n, b in case["asts"].items()}


def make_env(case, cls=None, **kw):
    import jinja2

    cls = cls or jinja2.Environment
    kw.setdefault("extensions", EXTENSIONS)
    env = cls(loader=jinja2.DictLoader(sources(case)), **kw)
    env.globals.update(case["globals"])
    return env


def realize_data(case, env=None):
    d = case["data"]
    if "$expr" in d:
        return exprgen.make_data(None, d["$expr"])[1]
    out = {}
    for k, v in d.items():
        if isinstance(v, dict) and "$tpl" in v:
            out[k] = env.get_template(v["$tpl"]) if env is not None else v["$tpl"]
        else:
            out[k] = v
    return out


def shape(case):
    """Cheap structural signature used for distinct counting."""
    def sk(body):
        out = []
        for s in body:
            bs = jast.stmt_bodies(s)
            out.append([s[0]] + [sk(b) for b in bs] if bs else s[0])
        return out
    return [case["kind"], {n: sk(b) for n, b in case["asts"].items()}]
