"""A mixed stream of generated programs for the differential checks
(C09, C10, C16, C29, C30, C31, C32): expression templates, statement programs,
inheritance hierarchies and include/import sets.

A case is JSON-able:
  {"kind": ..., "asts": {name: body}, "main": name, "data": recipe, "globals": {...}}
"""
from __future__ import annotations

from vt.gen import exprgen, jast, stmtgen, tplgen

EXTENSIONS = ["jinja2.ext.loopcontrols"]


def gen_case(rng, kinds=("expr", "stmt", "inherit", "incimp", "loop"), stmt_opts=None):
    k = kinds[rng.randrange(len(kinds))]
    if k == "expr":
        g = exprgen.Gen(rng)
        body = []
        for i in range(rng.randint(1, 4)):
            body.append(["text", f"[e{i}:"])
            body.append(["out", g.expr(rng.choice([2, 3, 4]))])
            body.append(["text", "]"])
        recipe, _ = exprgen.make_data(rng)
        return {"kind": k, "asts": {"main": body}, "main": "main", "data": {"$expr": recipe}, "globals": {}}
    if k == "stmt":
        g = stmtgen.SGen(rng, stmt_opts)
        body = g.program()
        return {"kind": k, "asts": {"main": body}, "main": "main", "data": stmtgen.make_data(rng),
                "globals": {}}
    if k == "inherit":
        g = tplgen.HGen(rng)
        templates, leaf, data, shape = g.hierarchy()
        return {"kind": k, "asts": templates, "main": leaf, "data": data, "globals": {}}
    if k == "loop":
        from vt.checks import c07

        extra = c07.ATTRS + ["cycle", "changed", "depth"]
        if rng.random() < 0.6:
            sc = [tuple(rng.choice(extra) for _ in range(rng.randint(1, 3)))]
        else:
            sc = [tuple(rng.choice(c07.ATTRS) for _ in range(rng.randint(0, 2))) for _ in range(3)]
        body = c07.loop_ast(sc, rng.choice([None, "odd", "gt"]), rng.random() < 0.5)
        data = {"seq": [rng.randint(0, 9) for _ in range(rng.randint(0, 5))], "k": rng.randint(0, 9)}
        return {"kind": k, "asts": {"main": body}, "main": "main", "data": data, "globals": {}}
    if k == "afilter":
        return afilter_case(rng)
    if k == "incimp":
        g = tplgen.IGen(rng)
        templates, data, glob = g.tset()
        return {"kind": k, "asts": templates, "main": "main", "data": data, "globals": glob}
    raise ValueError(k)


def afilter_case(rng):
    """Programs over the filters that have an async variant, with generated arguments."""
    C = lambda v: ["const", v]
    N = lambda n: ["name", n]
    F = lambda e, n, a=(), kw=(): ["filter", e, n, list(a), [list(x) for x in kw]]
    pick = lambda xs: xs[rng.randrange(len(xs))]
    recs = []
    for i in range(rng.randint(0, 5)):
        r = {"id": i}
        if rng.random() < 0.7:
            r["a"] = pick([1, 2, "x", "X", "y", None])
        if rng.random() < 0.6:
            r["b"] = {"c": pick([0, 1, 2])}
        recs.append(r)
    data = {"recs": recs, "nums": [rng.randint(0, 6) for _ in range(rng.randint(0, 6))],
            "words": [pick(["a", "A", "b", "B", "c"]) for _ in range(rng.randint(0, 5))],
            # floats whose sum depends on how they are added up
            "floats": pick([[0.1, 0.2, 0.3], [0.1] * 10, [1e16, 1.0, -1e16], [1.1, 2.2, 3.3], [0.5, 0.25]]),
            "frecs": [{"w": x} for x in pick([[0.1, 0.2, 0.3], [0.1, 0.7, 0.2], [2.5]])]}
    dflt = [["default", C(pick(["D", 9, "x"]))]] if rng.random() < 0.6 else []
    cs = [["case_sensitive", C(True)]] if rng.random() < 0.3 else []
    attr = pick(["a", "b.c", "id"])
    exprs = [
        F(F(N("recs"), "map", (), [["attribute", C(attr)]] + dflt), "list"),
        F(F(N("recs"), "groupby", [C(attr)], dflt + cs), "list"),
        F(F(N("nums"), pick(["select", "reject"]), [C(pick(["odd", "even"]))]), "list"),
        F(F(N("nums"), pick(["select", "reject"]), [C("gt"), C(rng.randint(0, 5))]), "list"),
        F(F(N("words"), "unique", (), cs), "list"), F(N("nums"), "sum", (), [["start", C(rng.randint(0, 3))]]),
        F(F(N("recs"), "sum", (), [["attribute", C("id")]]), "string"),
        F(F(N("nums"), "slice", [C(rng.randint(1, 3))] + ([C("F")] if rng.random() < .5 else [])), "list"),
        F(N("nums"), "first"), F(N("words"), "join", [C(pick([",", "", "-"]))]),
        F(F(N("recs"), "join", [C("|")], [["attribute", C("id")]]), "string"),
        F(F(F(N("recs"), pick(["selectattr", "rejectattr"]), [C("a")]), "list"), "length"),
        F(F(F(N("recs"), pick(["selectattr", "rejectattr"]), [C("a"), C("none")]), "list"), "length"),
        F(F(F(N("recs"), "selectattr", [C("id"), C("ge"), C(rng.randint(0, 3))]), "map", (), [["attribute", C("id")]]), "list"),
        F(F(N("words"), "map", [C("upper")]), "list"), F(N("nums"), "list"),
        F(N("floats"), "sum"), F(N("floats"), "sum", (), [["start", C(0.5)]]),
        F(N("frecs"), "sum", (), [["attribute", C("w")]]), F(F(N("floats"), "map", [C("abs")]), "sum"),
    ]
    body = []
    for i in range(rng.randint(2, 5)):
        body += [["text", f"[f{i}:"], ["out", pick(exprs)], ["text", "]"]]
    if rng.random() < 0.5:
        g = ["filter", N("recs"), "groupby", [C(attr)], dflt + cs]
        body += [["for", ["gk", "gitems"], g,
                  [["out", N("gk")], ["text", "="], ["out", F(N("gitems"), "length")], ["text", ";"]], [["text", "none"]], None, False]]
    return {"kind": "afilter", "asts": {"main": body}, "main": "main", "data": data, "globals": {}}


def sources(case, sx=jast.DEFAULT):
    return {n: jast.ps(b, sx) for n, b in case["asts"].items()}


def make_env(case, cls=None, **kw):
    import jinja2

    cls = cls or jinja2.Environment
    kw.setdefault("extensions", EXTENSIONS)
    env = cls(loader=jinja2.DictLoader(sources(case)), **kw)
    env.globals.update(case["globals"])
    return env


def realize_data(case, env=None):
    d = case["data"]
    if "$expr" in d:
        return exprgen.make_data(None, d["$expr"])[1]
    out = {}
    for k, v in d.items():
        if isinstance(v, dict) and "$tpl" in v:
            out[k] = env.get_template(v["$tpl"]) if env is not None else v["$tpl"]
        else:
            out[k] = v
    return out


def shape(case):
    """Cheap structural signature used for distinct counting."""
    def sk(body):
        out = []
        for s in body:
            bs = jast.stmt_bodies(s)
            out.append([s[0]] + [sk(b) for b in bs] if bs else s[0])
        return out
    return [case["kind"], {n: sk(b) for n, b in case["asts"].items()}]
