"""C18, eighth part: HOW the marker is visible on the object the template calls.

is_safe_callable documents: callables are safe "unless decorated with unsafe"
(which sets ``unsafe_callable = True`` on the object) and "this also recognizes
the Django convention of setting ``func.alters_data = True``".  Both are
attributes OF THE CALLED OBJECT, i.e. what ``getattr(obj, name, False)`` gives.
Ordinary Python attribute access has many sources besides the object's own
``__dict__``; applications hand templates objects of all these shapes (lazy
proxies in the style of werkzeug.local.LocalProxy / django SimpleLazyObject,
mocks, ORM managers with properties, slotted classes ...):

  function_dict            plain attribute of a function (control)
  instance_dict            instance __dict__ of a callable object
  class_attr               class attribute of a callable object's class
  inherited_class_attr     attribute of a base class
  property                 property of the class
  property_inherited       property of a base class
  property_reading_state   property that reads instance state
  nondata_descriptor       class attribute with __get__ only
  data_descriptor          class attribute with __get__ and __set__
  slot                     __slots__ entry set on the instance
  getattr_hook             class __getattr__ that answers the marker names
  getattribute_override    class __getattribute__ that answers the marker
                           names (value false: the class attribute says True,
                           __getattribute__ says False)
  proxy_function           transparent proxy (__getattr__ forwards every
                           attribute, __call__ forwards the call) around a
                           marked function
  proxy_lazy_factory       the same, the target is produced by a factory on
                           every access (LocalProxy)
  proxy_bound_method       proxy around a bound method whose function is marked
  proxy_callable_obj       proxy around a callable instance marked on its class
  proxy_pass_context       proxy around a marked pass_context function
  proxy_of_proxy           two proxy layers around a marked function
  proxy_spoof_function     proxy that also forwards __class__ (isinstance says
                           "function")
  proxy_spoof_bound_method proxy forwarding __class__ around a bound method
  method_of_proxy          types.MethodType(proxy, receiver): a bound method
                           shows the attributes of its __func__, here a proxy
  metaclass_attr           a CLASS the template instantiates, marker on its
                           metaclass
  metaclass_property       ... as a property of the metaclass
  metaclass_getattr        ... answered by the metaclass' __getattr__

This module only BUILDS the objects; the verdict is computed by the check with
plain getattr on the called object.
"""
from __future__ import annotations

import types

VIS = [
    "function_dict", "instance_dict", "class_attr", "inherited_class_attr", "property",
    "property_inherited", "property_reading_state", "nondata_descriptor", "data_descriptor", "slot",
    "getattr_hook", "getattribute_override", "proxy_function", "proxy_lazy_factory",
    "proxy_bound_method", "proxy_callable_obj", "proxy_pass_context", "proxy_of_proxy",
    "proxy_spoof_function", "proxy_spoof_bound_method", "method_of_proxy", "metaclass_attr",
    "metaclass_property", "metaclass_getattr",
]
#: forms where the marker is NOT an entry of the __dict__ of the called object,
#: of its class or of a base class holding the plain value
DYNAMIC = [v for v in VIS if v not in ("function_dict", "instance_dict", "class_attr",
                                       "inherited_class_attr", "metaclass_attr", "slot")]
PROXIES = [v for v in VIS if v.startswith("proxy_") or v == "method_of_proxy"]
MARKS = ["unsafe", "alters", "override"]
MARK_ATTR = {"unsafe": "unsafe_callable", "alters": "alters_data", "override": "vt_forbidden"}
VALUES = ["true", "false"]
ARGS = ["", "1", "1, k=2", "*[1, 2]", "**{'k': 1}", "1, *[2], **{'k': 3}"]


def rows():
    return [(v, m, val) for v in VIS for m in MARKS for val in VALUES]


class Proxy:
    """Transparent proxy: every attribute that the proxy does not have itself
    and every call is forwarded to the current target."""
    __slots__ = ("_vt_get",)

    def __init__(self, get):
        object.__setattr__(self, "_vt_get", get)

    def __getattr__(self, name):
        return getattr(object.__getattribute__(self, "_vt_get")(), name)

    def __call__(self, *args, **kwargs):
        return object.__getattribute__(self, "_vt_get")()(*args, **kwargs)


class SpoofProxy(Proxy):
    """... that also reports the class of its target (isinstance looks at
    __class__)."""
    __slots__ = ()
    __class__ = property(lambda self: type(object.__getattribute__(self, "_vt_get")()))


def build(vis, mark, value, body, twin=False):
    """-> f, the object handed to the template (the template calls exactly this
    object).  body() is the recording function of the check; twin = the same
    construction with no marker anywhere."""
    from jinja2 import pass_context
    from jinja2.sandbox import unsafe

    name = MARK_ATTR[mark]
    val = value == "true"
    marked = not twin

    def put(obj):
        """the marker as a plain attribute of obj (function, instance, class)"""
        if not marked:
            return obj
        if mark == "unsafe" and val:
            return unsafe(obj)
        setattr(obj, name, val)
        return obj

    def fresh():
        def fn(*args, **kwargs):
            return body()
        return fn

    def call(self, *args, **kwargs):
        return body()

    if vis == "function_dict":
        return put(fresh())
    if vis == "instance_dict":
        return put(type("CO", (), {"__call__": call})())
    if vis == "class_attr":
        return put(type("CO", (), {"__call__": call}))()
    if vis == "inherited_class_attr":
        base = put(type("Base", (), {}))
        return type("CO", (base,), {"__call__": call})()
    if vis in ("property", "property_inherited", "property_reading_state"):
        ns = {}
        if marked:
            if vis == "property_reading_state":
                ns[name] = property(lambda self: self.vt_state["flag"])
            else:
                ns[name] = property(lambda self: val)
        if vis == "property_inherited":
            base = type("Base", (), ns)
            o = type("CO", (base,), {"__call__": call})()
        else:
            ns["__call__"] = call
            o = type("CO", (), ns)()
        o.vt_state = {"flag": val}
        return o
    if vis in ("nondata_descriptor", "data_descriptor"):
        class Desc:
            def __get__(self, inst, owner=None):
                return val
        if vis == "data_descriptor":
            Desc.__set__ = lambda self, inst, v: None
        ns = {"__call__": call}
        if marked:
            ns[name] = Desc()
        return type("CO", (), ns)()
    if vis == "slot":
        o = type("CO", (), {"__slots__": ("unsafe_callable", "alters_data", "vt_forbidden"),
                            "__call__": call})()
        if marked:
            setattr(o, name, val)
        return o
    if vis == "getattr_hook":
        def __getattr__(self, n):
            if marked and n == name:
                return val
            raise AttributeError(n)
        return type("CO", (), {"__call__": call, "__getattr__": __getattr__})()
    if vis == "getattribute_override":
        def __getattribute__(self, n):
            if marked and n == name:
                return val
            return object.__getattribute__(self, n)
        ns = {"__call__": call, "__getattribute__": __getattribute__}
        if marked and not val:
            ns[name] = True       # what the class says statically; __getattribute__ decides
        return type("CO", (), ns)()
    if vis in ("proxy_function", "proxy_spoof_function"):
        target = put(fresh())
        return (SpoofProxy if "spoof" in vis else Proxy)(lambda: target)
    if vis == "proxy_lazy_factory":
        return Proxy(lambda: put(fresh()))
    if vis in ("proxy_bound_method", "proxy_spoof_bound_method"):
        target = type("O", (), {"meth": put(lambda self, *a, **k: body())})().meth
        return (SpoofProxy if "spoof" in vis else Proxy)(lambda: target)
    if vis == "proxy_callable_obj":
        target = put(type("CO", (), {"__call__": call}))()
        return Proxy(lambda: target)
    if vis == "proxy_pass_context":
        @pass_context
        def target(context, *args, **kwargs):
            return body()
        put(target)
        return Proxy(lambda: target)
    if vis == "proxy_of_proxy":
        target = put(fresh())
        inner = Proxy(lambda: target)
        return Proxy(lambda: inner)
    if vis == "method_of_proxy":
        target = put(lambda self, *a, **k: body())
        return types.MethodType(Proxy(lambda: target), object())
    if vis in ("metaclass_attr", "metaclass_property", "metaclass_getattr"):
        mns = {}
        if marked and vis == "metaclass_attr":
            mns[name] = val
        elif marked and vis == "metaclass_property":
            mns[name] = property(lambda cls: val)
        elif vis == "metaclass_getattr":
            def __getattr__(cls, n):
                if marked and n == name:
                    return val
                raise AttributeError(n)
            mns["__getattr__"] = __getattr__
        meta = type("Meta", (type,), mns)

        def __new__(cls, *args, **kwargs):
            body()
            return int.__new__(cls, 1)
        return meta("K", (int,), {"__new__": __new__, "__call__": lambda self, *a, **k: 1,
                                  "__getitem__": lambda self, i: 1,
                                  "__iter__": lambda self: iter([1])})
    raise AssertionError(vis)
