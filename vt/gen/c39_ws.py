"""Whitespace-alphabet widening for the C39 sources.

The C12 skeleton generators (vt.gen.c12_skel) write every blank as a space or a
tab.  Here the same skeletons get blanks from the whole whitespace class of the
model (vt.model.c12_trim.WS: the Unicode White_Space characters): form feed,
vertical tab, NEL, no-break space, en/em/hair/narrow spaces, line/paragraph
separator, ideographic space, alone or mixed with spaces and tabs -- in the
indentation before tags, after tags, next to '-'/'+' modifiers, in raw bodies
and inside the tags.  None of them is a line break of a template source (only
LF, CRLF, CR are).  ZERO WIDTH SPACE (White_Space=no) is added to text runs as
a character that looks blank but is text.

All randomness comes from the rng handed in.
"""
from __future__ import annotations

from vt.model import c12_trim as M

#: whitespace that is neither space/tab nor a template line break
X_CHARS = ["\x0c", "\x0b", "\xa0", "\u2003", "\u3000", "\u2028", "\x85", "\u200a", "\u202f",
           "\u1680", "\u2029", "\u205f"]
assert all(c in M.EXOTIC for c in X_CHARS)
#: not whitespace (Unicode White_Space=no), although it renders as nothing
ZWSP = "\u200b"
assert ZWSP not in M.WS and not ZWSP.isspace()

# fixed run sets of the exhaustive part ---------------------------------------
#: 1-tag skeletons: every rule-relevant position of non-space/tab whitespace:
#: alone at the source start, alone / mixed with spaces after a line break, after
#: text on the tag's line, before / after the line break that follows a tag,
#: next to a blank-looking non-whitespace character
T1X = ["\x0c", "\n\xa0", "\n \x0c ", "\x0b\n", "a\n\u2003", "a\x0c", "\n" + ZWSP, "\t\u3000\n\u2028\t",
       "\n\x85a"]
#: 2-tag skeletons (three runs each): "own line" indentation A and "same line" blank B
_A, _B = "\n\x0c", " \xa0"
T2X_TRIPLES = [(_A, _A, _A), (_B, _B, _B), (_A, _B, _A), (_B, _A, _B), (_A, _A, _B)]


def _subst(rng, s, one, p, pool):
    out = []
    for ch in s:
        if ch in " \t" and rng.random() < p:
            out.append(one if one is not None else rng.choice(pool))
        else:
            out.append(ch)
    return "".join(out)


def exoticize(rng, skel, inner=True):
    """A copy of `skel` whose blanks are (partly) non-space/tab whitespace.

    Per skeleton one of three modes: 'one' (most blanks become the same character, so
    indentation made of that character only is frequent), 'mixed' (every blank becomes a
    random whitespace character with probability 1/2: mixes with spaces and tabs) and
    'sparse'.  Text runs additionally get such whitespace appended (indentation of the next
    tag / end of the source) or prepended (directly after the previous tag) now and then,
    and rarely a ZERO WIDTH SPACE, which is text.  With `inner`, the whitespace inside the
    tags is treated the same way (never ZERO WIDTH SPACE there)."""
    mode = rng.choice(("one", "one", "mixed", "mixed", "sparse"))
    one = rng.choice(X_CHARS) if mode == "one" else None
    p = {"one": 0.8, "mixed": 0.5, "sparse": 0.15}[mode]
    pool = X_CHARS
    out = []
    for i, it in enumerate(skel):
        if i % 2 == 0:
            s = _subst(rng, it, one, p, pool)
            c = rng.random()
            if c < 0.25:
                s = s + (one or rng.choice(pool)) * rng.choice((1, 1, 2))
            elif c < 0.32:
                s = s + " " + (one or rng.choice(pool))
            elif c < 0.36:
                s = s + ZWSP
            c = rng.random()
            if c < 0.15:
                s = (one or rng.choice(pool)) + s
            elif c < 0.18:
                s = ZWSP + s
            out.append(s)
        else:
            t = dict(it)
            if inner and rng.random() < 0.5:
                t["in"] = _subst(rng, t["in"], one, p, pool)
            out.append(t)
    return out


def inner_exotic_kinds(skel):
    """Kinds of the non-comment tags that carry non-space/tab whitespace inside."""
    return sorted({t["k"] for t in skel[1::2] if t["k"] != "comment" and M.has_exotic(t["in"])})
