"""C18, seventh part: the callable the template calls is a DECORATED callable.

Applications wrap the functions they hand to templates: logging / auditing
decorators built with functools.wraps or functools.update_wrapper, caches
(functools.lru_cache, functools.cache), functools.singledispatch,
functools.partial / partialmethod, contextlib.contextmanager, class based
decorators, and methods whose function is such a wrapper.  The marker
(jinja2.sandbox.unsafe, alters_data = True, an attribute an overridden
is_safe_callable looks at, or the identity of the object on a deny-list of an
overridden is_safe_callable) may sit

  outer                   on the object the application hands to the template
                          (set after decorating),
  inner_before            on the innermost function BEFORE it is decorated
                          (functools.update_wrapper copies __dict__, so the
                          wrapper shows the marker too - unless the decorator
                          does not copy it: partial, updated=(), ...),
  inner_after             on the innermost function after decorating (the
                          wrapper does not show it),
  both                    inner_before + outer,
  middle                  on the middle layer of a two-layer chain (before the
                          outer layer is put on),
  outer_false_inner_true  the innermost function says True (set after
                          decorating), the outer object spells out False.

This module only BUILDS the objects.  The expected verdict is not tabulated
here: the check computes it from the documented rule applied to the object the
template calls (see c18.py, wrapped_reference_refuses).
"""
from __future__ import annotations

import contextlib
import functools

#: chain -> has a middle layer
CHAINS = {
    "wraps": False,                          # @functools.wraps(f) def wrapper
    "update_wrapper": False,                 # functools.update_wrapper(wrapper, f)
    "wraps_no_dict": False,                  # functools.wraps(f, updated=()): __dict__ not copied
    "wraps_twice": True,                     # two functools.wraps layers
    "wraps_over_lru_cache": True,            # wraps wrapper around an lru_cache wrapper
    "lru_cache_over_wraps": True,            # lru_cache around a wraps wrapper
    "lru_cache": False,                      # functools.lru_cache(maxsize=None)(f)
    "lru_cache_bare": False,                 # @functools.lru_cache without arguments
    "cache": False,                          # functools.cache(f)
    "singledispatch": False,                 # functools.singledispatch(f)
    "partial": False,                        # functools.partial(f, 0): no __wrapped__, nothing copied
    "partial_of_wraps": True,                # partial of a wraps wrapper
    "wraps_of_partial": True,                # wraps wrapper whose __wrapped__ is a partial object
    "partialmethod": False,                  # functools.partialmethod in a class, called as bound attribute
    "contextmanager": False,                 # function produced by contextlib.contextmanager
    "bound_wraps": False,                    # bound method whose function is a wraps wrapper
    "bound_lru_cache": False,                # bound method whose function is an lru_cache wrapper
    "classmethod_wraps": False,              # classmethod(wraps wrapper)
    "staticmethod_wraps": False,             # staticmethod(wraps wrapper)
    "callable_instance_update_wrapper": False,   # class based decorator: update_wrapper(self, f)
    "callable_instance_wrapped_elsewhere": False,  # callable object with __wrapped__ -> an unrelated function
    "class_wrapped_elsewhere": False,        # class the template instantiates, __wrapped__ -> unrelated function
    "pass_context_over_wraps": False,        # @pass_context on a wraps wrapper
    "wraps_over_pass_context": False,        # wraps wrapper around a pass_context function
}
POSITIONS = ["outer", "inner_before", "inner_after", "both", "middle", "outer_false_inner_true"]
#: unsafe / alters: the two documented markers; override: attribute read by an
#: overridden is_safe_callable; deny_object: identity deny-list of an overridden
#: is_safe_callable
MARKS = ["unsafe", "alters", "override", "deny_object"]
#: argument texts usable with every chain (singledispatch needs a positional
#: argument, the caches hashable ones)
ARGS = ["1", "1, k=2", "*[1, 2]", "1, *[2], **{'k': 3}"]


def valid(chain, position, mark):
    if position == "middle" and not CHAINS[chain]:
        return False
    if mark == "deny_object" and position in ("inner_before", "outer_false_inner_true"):
        # identity has no before/after and no explicit False
        return False
    return True


def rows():
    return [(c, p, m) for c in CHAINS for p in POSITIONS for m in MARKS if valid(c, p, m)]


def build(chain, position, mark, body, twin=False):
    """-> (f, denied, info): f = the object handed to the template (the template
    calls exactly this object), denied = objects on the identity deny-list,
    info = {"inner": innermost function, "inner_marked": bool}.
    body() is the recording function of the check; twin = same construction,
    no marker anywhere."""
    from jinja2 import pass_context
    from jinja2.sandbox import unsafe

    denied = []

    def apply(obj, value=True):
        if mark == "unsafe":
            if value:
                unsafe(obj)
            else:
                obj.unsafe_callable = False
        elif mark == "alters":
            obj.alters_data = value
        elif mark == "override":
            obj.vt_forbidden = value
        elif mark == "deny_object":
            denied.append(obj)
        else:
            raise AssertionError(mark)
        return obj

    def stage(layer, obj):
        if twin:
            return obj
        if layer == "inner" and position in ("inner_before", "both"):
            apply(obj)
        if layer == "middle" and position == "middle":
            apply(obj)
        return obj

    def finish(outer_layer, inner, called):
        """outer_layer: the object that carries the attributes of the called
        object (the function behind a bound method, else the called object)."""
        if twin:
            return
        if position in ("inner_after", "outer_false_inner_true"):
            apply(inner)
        if position in ("outer", "both"):
            apply(called if mark == "deny_object" else outer_layer)
        if position == "outer_false_inner_true":
            apply(outer_layer, False)

    def fresh():
        def inner(*args, **kwargs):
            return body()
        return inner

    def fresh_method():
        def inner(self_or_cls, *args, **kwargs):
            return body()
        return inner

    def wraps(fn, **kw):
        @functools.wraps(fn, **kw)
        def wrapper(*args, **kwargs):
            return fn(*args, **kwargs)
        return wrapper

    def bound(attr_value):
        return type("O", (), {"meth": attr_value})().meth

    if chain == "wraps":
        inner = stage("inner", fresh())
        f = outer = wraps(inner)
    elif chain == "update_wrapper":
        inner = stage("inner", fresh())

        def wrapper(*args, **kwargs):
            return inner(*args, **kwargs)
        f = outer = functools.update_wrapper(wrapper, inner)
    elif chain == "wraps_no_dict":
        inner = stage("inner", fresh())
        f = outer = wraps(inner, updated=())
    elif chain == "wraps_twice":
        inner = stage("inner", fresh())
        mid = stage("middle", wraps(inner))
        f = outer = wraps(mid)
    elif chain == "wraps_over_lru_cache":
        inner = stage("inner", fresh())
        mid = stage("middle", functools.lru_cache(maxsize=None)(inner))
        f = outer = wraps(mid)
    elif chain == "lru_cache_over_wraps":
        inner = stage("inner", fresh())
        mid = stage("middle", wraps(inner))
        f = outer = functools.lru_cache(maxsize=8)(mid)
    elif chain == "lru_cache":
        inner = stage("inner", fresh())
        f = outer = functools.lru_cache(maxsize=None)(inner)
    elif chain == "lru_cache_bare":
        inner = stage("inner", fresh())
        f = outer = functools.lru_cache(inner)
    elif chain == "cache":
        inner = stage("inner", fresh())
        f = outer = functools.cache(inner)
    elif chain == "singledispatch":
        inner = stage("inner", fresh())
        f = outer = functools.singledispatch(inner)
    elif chain == "partial":
        inner = stage("inner", fresh())
        f = outer = functools.partial(inner, 0)
    elif chain == "partial_of_wraps":
        inner = stage("inner", fresh())
        mid = stage("middle", wraps(inner))
        f = outer = functools.partial(mid, 0)
    elif chain == "wraps_of_partial":
        inner = stage("inner", fresh())
        mid = stage("middle", functools.partial(inner, 0))
        f = outer = wraps(mid)
    elif chain == "partialmethod":
        inner = stage("inner", fresh_method())
        outer = functools.partialmethod(inner, 0)
        f = bound(outer)
    elif chain == "contextmanager":
        def gen():
            yield 1

        def opener(*args, **kwargs):
            body()
            return gen()
        inner = stage("inner", opener)
        f = outer = contextlib.contextmanager(inner)
    elif chain == "bound_wraps":
        inner = stage("inner", fresh_method())
        outer = wraps(inner)
        f = bound(outer)
    elif chain == "bound_lru_cache":
        inner = stage("inner", fresh_method())
        outer = functools.lru_cache(maxsize=None)(inner)
        f = bound(outer)
    elif chain == "classmethod_wraps":
        inner = stage("inner", fresh_method())
        outer = wraps(inner)
        f = bound(classmethod(outer))
    elif chain == "staticmethod_wraps":
        inner = stage("inner", fresh())
        outer = wraps(inner)
        f = bound(staticmethod(outer))
    elif chain == "callable_instance_update_wrapper":
        inner = stage("inner", fresh())

        class Decorated:
            def __init__(self, fn):
                self.fn = fn
                functools.update_wrapper(self, fn)

            def __call__(self, *args, **kwargs):
                return self.fn(*args, **kwargs)
        f = outer = Decorated(inner)
    elif chain == "callable_instance_wrapped_elsewhere":
        def elsewhere(*args, **kwargs):
            return None
        inner = stage("inner", elsewhere)
        CO = type("CO", (), {"__call__": lambda self, *args, **kwargs: body()})
        f = outer = CO()
        f.__wrapped__ = inner
    elif chain == "class_wrapped_elsewhere":
        def elsewhere(*args, **kwargs):
            return None
        inner = stage("inner", elsewhere)

        class K(int):
            def __new__(cls, *args, **kwargs):
                body()
                return int.__new__(cls, 1)

            def __call__(self, *args, **kwargs):
                return 1

            def __getitem__(self, i):
                return 1

            def __iter__(self):
                return iter([1])
        K.__wrapped__ = inner
        f = outer = K
    elif chain == "pass_context_over_wraps":
        inner = stage("inner", fresh())

        def ctx_wrapper(context, *args, **kwargs):
            return inner(*args, **kwargs)
        f = outer = pass_context(functools.update_wrapper(ctx_wrapper, inner))
    elif chain == "wraps_over_pass_context":
        @pass_context
        def ctx_inner(context, *args, **kwargs):
            return body()
        inner = stage("inner", ctx_inner)
        f = outer = wraps(inner)          # __dict__ copied: the wrapper is a pass_context function too
    else:
        raise AssertionError(chain)
    finish(outer, inner, f)
    inner_marked = (not twin) and position != "outer" and position != "middle"
    return f, denied, {"inner": inner, "inner_marked": inner_marked}
