"""C17 workload tables: the TYPE of the string whose format / format_map
method a template reaches, and the way that string comes in front of the
template.

The property speaks of "format-string field lookups (str.format, format_map,
Markup.format, including stored method references)": a format string is any
`str` instance - applications hand templates instances of str SUBCLASSES all
the time (tagged / "safe" strings, message-catalogue results, lazy
translations, Markup subclasses), as data and as results of custom filters or
gettext callables.  Every string-method access form of the C17 grammar (call
through dot / subscript / |attr / map(attribute=) / map('attr') / stored bound
method in set, with, list, dict, macro argument; format and format_map) is
combined with these receiver kinds and providers.
"""
from __future__ import annotations

from markupsafe import Markup


class StrSub(str):
    """plain tagging subclass"""
    domain = "messages"


class StrSubHtml(str):
    """a "safe string" class of the application: str subclass with __html__"""

    def __html__(self):
        return str(self)


class StrSubOverride(str):
    """subclass overriding format / format_map and delegating to str"""

    def format(self, *args, **kwargs):
        return super().format(*args, **kwargs)

    def format_map(self, mapping):
        return super().format_map(mapping)


class StrSubSlots(str):
    """subclass without instance dict, with a custom __repr__ and __eq__"""
    __slots__ = ()

    def __repr__(self):
        return "S" + str.__repr__(self)

    def __eq__(self, other):
        return str.__eq__(self, other)

    __hash__ = str.__hash__


class StrSubSub(StrSub):
    """second-level subclass"""


class MarkupSub(Markup):
    """Markup subclass"""
    __slots__ = ()


class MarkupSubOverride(Markup):
    __slots__ = ()

    def format(self, *args, **kwargs):
        return super().format(*args, **kwargs)

    def format_map(self, mapping):
        return super().format_map(mapping)


#: receiver kind -> class
STR_KINDS = {
    "str_exact": str,
    "str_subclass": StrSub,
    "str_subclass_html": StrSubHtml,
    "str_subclass_format_override": StrSubOverride,
    "str_subclass_slots": StrSubSlots,
    "str_subclass_2nd_level": StrSubSub,
    "markup_exact": Markup,
    "markup_subclass": MarkupSub,
    "markup_subclass_format_override": MarkupSubOverride,
}
SUBCLASS_KINDS = [k for k in STR_KINDS if "subclass" in k]

#: provider -> (prelude, expression); TEXT = the format string, KIND = receiver kind
PROVIDERS = {
    "data": ("", "fsv"),
    "data_dict_value": ("", "fsd.v"),
    "data_list_item": ("", "fsl[0]"),
    "data_set_alias": ("{% set fsa = fsv %}", "fsa"),
    "data_first_filter": ("", "(fsl|first)"),
    "filter_result": ("", "('TEXT'|vt_strtype_KIND)"),
    "gettext_result": ("", "gettext('TEXT')"),
    "underscore_gettext_result": ("", "_('TEXT')"),
    "data_method_result": ("", "fso.text()"),
}


class Holder:
    """data object whose public method returns the format string"""

    def __init__(self, value):
        self._v = value

    def text(self):
        return self._v


def filters():
    """custom filters returning a string of each kind (registered on every C17
    environment)"""
    return {"vt_strtype_" + k: cls for k, cls in STR_KINDS.items()}


def data_for(kind, text):
    cls = STR_KINDS[kind]
    return {"fsv": cls(text), "fsd": {"v": cls(text)}, "fsl": [cls(text)],
            "gettext": lambda s: cls(s), "_": lambda s: cls(s), "fso": Holder(cls(text))}
