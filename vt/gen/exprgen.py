"""Type-directed random expression trees for C02/C08/C20 (JSON-able, see jast)."""
from __future__ import annotations

# vocabulary: name -> type
VOCAB = {
    "i1": "int", "i2": "int", "i3": "int", "f1": "float", "s1": "str", "s2": "str",
    "l1": "list_int", "l2": "list_int", "ls": "list_str", "d1": "dict", "t1": "list_int",
    "o1": "obj", "n1": "none", "u1": "undef", "u2": "undef", "b1": "bool",
}


class Obj:
    """Data object with both attributes and items, with different values so
    that the attribute/item preference order is observable."""

    def __init__(self, attrs, items):
        self.__dict__.update(attrs)
        self._items = items

    def __getitem__(self, k):
        return self._items[k]

    def __repr__(self):
        return "Obj"

    def meth(self, x=0):
        return x + 1000

    def __eq__(self, o):
        return isinstance(o, Obj) and self.__dict__ == o.__dict__

    def __hash__(self):
        return 7


def make_data(rng, recipe=None):
    """Returns (recipe, data). recipe is JSON-able and regenerates data."""
    if recipe is None:
        recipe = {
            "i1": rng.choice([0, 1, 2, 3, 7, 12]), "i2": rng.choice([1, 2, 5, 9]),
            "i3": rng.choice([0, 1, 4, 6]), "f1": rng.choice([0.5, 1.5, 2.0, 0.25]),
            "s1": rng.choice(["ab", "", "Hello", "x y", "7"]), "s2": rng.choice(["b", "cd", "A"]),
            "l1": [rng.randint(0, 9) for _ in range(rng.randint(0, 4))],
            "l2": [rng.randint(0, 9) for _ in range(rng.randint(1, 3))],
            "ls": [rng.choice(["a", "b", "cc", ""]) for _ in range(rng.randint(0, 3))],
            "d1": {"a": rng.randint(0, 5), "items": rng.randint(6, 9), "k": rng.randint(0, 3),
                   "0": 11},
            "t1": [rng.randint(0, 5) for _ in range(rng.randint(1, 3))],
            "o1": {"attrs": {"a": rng.randint(20, 29), "both": 31}, "items": {"both": 32, "k": 33, "a2": 34}},
            "b1": rng.choice([True, False]),
            "m1": rng.choice(["<b>x</b>", "<i>", "a&amp;b", ""]),
        }
    data = dict(recipe)
    data["t1"] = tuple(recipe["t1"])
    data["o1"] = Obj(recipe["o1"]["attrs"], recipe["o1"]["items"])
    data["n1"] = None
    if "m1" in recipe:
        from markupsafe import Markup

        data["m1"] = Markup(recipe["m1"])
    return recipe, data


def C(v):
    return ["const", v]


def N(n):
    return ["name", n]


class Gen:
    def __init__(self, rng, features=None, vocab=None):
        self.r = rng
        self.f = features or set()
        self.vocab = vocab or VOCAB
        self.by_type = {}
        for n, t in self.vocab.items():
            self.by_type.setdefault(t, []).append(n)

    def pick(self, xs):
        return xs[self.r.randrange(len(xs))]

    def name_of(self, t):
        ns = self.by_type.get(t)
        return N(self.pick(ns)) if ns else None

    # ------------------------------------------------------------ ints
    def int_(self, d):
        r = self.r
        if d <= 0 or r.random() < 0.25:
            if r.random() < 0.5:
                return self.name_of("int")
            return C(r.choice([0, 1, 2, 3, 5, 10]))
        k = r.random()
        if k < 0.40:
            op = self.pick(["+", "-", "*", "+", "-", "*", "//", "%"])
            return ["bin", op, self.int_(d - 1), self.int_(d - 1)]
        if k < 0.48:
            # ** with a small constant exponent; documented left-assoc chains
            base = self.int_(d - 1)
            # exponent: a small constant or a variable holding a small int
            exp = C(r.choice([0, 1, 2, 3])) if r.random() < 0.6 else N(self.pick(["i2", "i3"]))
            return ["bin", "**", base, exp]
        if k < 0.56:
            return ["un", self.pick(["-", "+"]), self.int_(d - 1)]
        if k < 0.64:
            return ["cond", self.int_(d - 1), self.bool_(d - 1), self.int_(d - 1)]
        if k < 0.70:
            return ["filter", self.any_list(d - 1), "length", [], []]
        if k < 0.75:
            return ["filter", self.int_(d - 1), "abs", [], []]
        if k < 0.80:
            # always in range: l2 and t1 are never empty
            return ["item", N(self.pick(["l2", "t1"])), C(0) if r.random() < .7 else ["un", "-", C(1)]]
        if k < 0.84:
            return self.pick([["attr", N("d1"), "a"], ["item", N("d1"), C("items")],
                              ["attr", N("o1"), "both"], ["item", N("o1"), C("both")],
                              ["attr", N("o1"), "k"], ["item", N("o1"), C("a")],
                              ["attr", N("d1"), "k"], ["item", N("d1"), C("0")],
                              # attribute syntax prefers the attribute: d1 HAS a key "items",
                              # d1.items is still the dict method
                              ["filter", ["filter", ["call", ["attr", N("d1"), "items"], [], []], "list", [], []],
                               "length", [], []],
                              ["call", ["attr", N("d1"), "get"], [C(self.pick(["a", "items", "zz"])), self.int_(0)], []],
                              ["filter", N("o1"), "attr", [C("both")], []]])
        if k < 0.88:
            return ["filter", self.undef_(d - 1), "default", [self.int_(d - 1)], []]
        if k < 0.92:
            return ["call", ["attr", N("o1"), "meth"], [self.int_(d - 1)], []]
        if k < 0.96:
            return ["filter", self.list_int(d - 1), self.pick(["sum"]), [], []]
        return ["or", self.int_(d - 1), self.int_(d - 1)] if r.random() < .5 else \
            ["and", self.int_(d - 1), self.int_(d - 1)]

    def num_(self, d):
        r = self.r
        if r.random() < 0.7:
            return self.int_(d)
        if d <= 0:
            return N("f1") if r.random() < .6 else C(r.choice([0.5, 2.5, 1.25]))
        k = r.random()
        if k < 0.12:
            # power with a float (possibly negative) base and a small exponent
            base = self.pick([N("f1"), C(2.5), ["un", "-", C(2.0)], ["un", "-", C(0.5)], ["un", "-", N("f1")]])
            exp = C(r.choice([0, 1, 2, 3])) if r.random() < 0.5 else N(self.pick(["i2", "i3"]))
            return ["bin", "**", base, exp]
        if k < 0.5:
            return ["bin", self.pick(["+", "-", "*", "/"]), self.num_(d - 1), self.num_(d - 1)]
        if k < 0.7:
            return ["bin", "/", self.int_(d - 1), self.int_(d - 1)]
        if k < 0.8:
            # sums of floats whose result depends on HOW they are added up (the sum filter is
            # documented as the sum of the items; Python's sum() is the reference)
            items = r.choice([[0.1, 0.2, 0.3], [0.1] * 10, [1e16, 1.0, -1e16], [0.1, 0.7, 0.2], [1.1, 2.2, 3.3]])
            lst = ["list", [C(x) if x >= 0 else ["un", "-", C(-x)] for x in items]]
            if r.random() < 0.4:
                lst = ["bin", "+", lst, ["list", [N("f1")]]]
            return ["filter", lst, "sum", [], []]
        return N("f1")

    # ---------------------------------------------------------- strings
    def str_(self, d):
        r = self.r
        if d <= 0 or r.random() < 0.25:
            if r.random() < 0.5:
                return self.name_of("str")
            return C(r.choice(["a", "", "xy", "Q ", "1", "<b>"]))
        k = r.random()
        if "markup" in self.f and k < 0.12:
            # safe strings: a Markup value from the data or a |safe-marked string
            k2 = r.random()
            if k2 < 0.2:
                # str.format on a safe template string: the result stays safe, arguments are escaped
                tpl = ["filter", C(r.choice(["<b>{}</b>", "{0}-{0}", "[{}|{}]", "<i>"])), "safe", [], []]
                return ["call", ["attr", tpl, "format"], [self.str_(0), self.str_(0)], []]
            return N("m1") if k2 < 0.6 else ["filter", self.str_(d - 1), "safe", [], []]
        if k < 0.35:
            return ["bin", "~", self.any_(d - 1), self.any_(d - 1)]
        if k < 0.45:
            return ["bin", "+", self.str_(d - 1), self.str_(d - 1)]
        if k < 0.52:
            return ["bin", "*", self.str_(d - 1), C(r.choice([0, 1, 2, 3]))]
        if k < 0.64:
            return ["filter", self.str_(d - 1), self.pick(["upper", "lower", "trim", "capitalize"]), [], []]
        if k < 0.70:
            return ["filter", self.any_list(d - 1), "join", [self.str_(0)] if r.random() < .6 else [], []]
        if k < 0.73 and "markup" not in self.f or k < 0.705:
            return self.truncate_()
        if k < 0.76:
            return ["cond", self.str_(d - 1), self.bool_(d - 1), self.str_(d - 1)]
        if k < 0.82:
            return ["filter", self.any_(d - 1), "string", [], []]
        if k < 0.88:
            return ["slice", self.str_(d - 1), C(r.choice([0, 1])) if r.random() < .6 else None,
                    C(r.choice([1, 2, 3])) if r.random() < .6 else None,
                    (C(2) if r.random() < .5 else ["un", "-", C(1)]) if r.random() < .3 else None]
        if k < 0.92:
            return ["call", ["attr", self.str_(d - 1), self.pick(["upper", "strip", "title"])], [], []]
        if k < 0.96:
            return ["filter", self.undef_(d - 1), "default", [self.str_(d - 1)], []]
        if "markup" in self.f:
            # replace on a safe string: argument escaping is filter-contract territory (C24)
            return ["filter", self.str_(d - 1), "upper", [], []]
        return ["filter", self.str_(d - 1), "replace", [self.str_(0), self.str_(0)], []]

    def truncate_(self):
        """truncate around its tolerance boundary: a literal of known length L against
        length + leeway in {L-1, L, L+1}; killwords true (cut exactly) or a text with spaces."""
        r = self.r
        text = r.choice(["abcdefghijklmnop", "ab cd ef gh ij kl", "x" * 12, "foo bar baz qux"])
        L = r.randint(6, len(text))
        s = text[:L]
        leeway = r.choice([0, 1, 2, 5])
        length = max(3, L - leeway + r.choice([-1, 0, 0, 1]))
        end = r.choice(["...", "", "~"])
        kill = True if " " not in s[:max(length - len(end), 0)] else r.random() < 0.5
        args = [C(length), C(kill), C(end)]
        if leeway != 5 or r.random() < 0.5:
            args.append(C(leeway))
        return ["filter", C(s), "truncate", args, []]

    # ------------------------------------------------------------ bools
    def bool_(self, d):
        r = self.r
        if d <= 0 or r.random() < 0.15:
            return self.pick([C(True), C(False), N("b1"), self.int_(0), self.name_of("undef")])
        k = r.random()
        if k < 0.25:
            ops = ["==", "!=", "<", "<=", ">", ">="]
            n = 1 if r.random() < 0.75 else 2
            return ["cmp", self.num_(d - 1), [[self.pick(ops), self.num_(d - 1)] for _ in range(n)]]
        if k < 0.33:
            return ["cmp", self.str_(d - 1), [[self.pick(["==", "!=", "<", ">"]), self.str_(d - 1)]]]
        if k < 0.43:
            return ["cmp", self.int_(d - 1), [[self.pick(["in", "not in"]), self.list_int(d - 1)]]]
        if k < 0.48:
            return ["cmp", self.str_(0), [[self.pick(["in", "not in"]),
                                           self.pick([self.str_(d - 1), N("d1"), N("ls")])]]]
        if k < 0.60:
            return [self.pick(["and", "or"]), self.bool_(d - 1), self.bool_(d - 1)]
        if k < 0.68:
            return ["un", "not", self.bool_(d - 1)]
        if k < 0.80:
            tests = [("odd", "int"), ("even", "int"), ("defined", "any"), ("undefined", "any"),
                     ("none", "any"), ("string", "any"), ("number", "any"), ("mapping", "any"),
                     ("sequence", "def"), ("iterable", "def"), ("boolean", "any"), ("integer", "any"),
                     ("float", "any")]
            t, ty = self.pick(tests)
            sub = self.int_(d - 1) if ty == "int" else (self.defined_any(d - 1) if ty == "def" else self.any_(d - 1))
            return ["test", sub, t, [], r.random() < 0.3]
        if k < 0.86:
            return ["test", self.int_(d - 1), "divisibleby", [C(r.choice([1, 2, 3]))], r.random() < 0.3]
        if k < 0.92:
            return ["test", self.num_(d - 1), self.pick(["eq", "ne", "lt", "gt", "ge", "le"]), [self.num_(d - 1)], False]
        if k < 0.96:
            return ["cmp", self.any_(d - 1), [[self.pick(["==", "!="]), self.any_(d - 1)]]]
        return ["cond", self.bool_(d - 1), self.bool_(d - 1), self.bool_(d - 1)]

    # ------------------------------------------------------------ lists
    def list_int(self, d):
        r = self.r
        if d <= 0 or r.random() < 0.3:
            return self.name_of("list_int") if r.random() < .6 else \
                ["list", [self.int_(0) for _ in range(r.randint(0, 3))]]
        k = r.random()
        if k < 0.25:
            return ["list", [self.int_(d - 1) for _ in range(r.randint(0, 3))]]
        if k < 0.40:
            return ["bin", "+", self.list_int_strict(d - 1), self.list_int_strict(d - 1)]
        if k < 0.55:
            return ["filter", self.list_int(d - 1), "sort", [], [["reverse", C(True)]] if r.random() < .4 else []]
        if k < 0.70:
            return ["slice", self.list_int(d - 1), C(r.choice([0, 1])) if r.random() < .6 else None,
                    C(r.choice([1, 2, 3])) if r.random() < .6 else None, None]
        if k < 0.80:
            return ["filter", ["call", N("range"), [C(r.choice([0, 1, 2, 3, 4]))], []], "list", [], []]
        if k < 0.9:
            return ["tuple", [self.int_(d - 1) for _ in range(r.randint(1, 3))]]
        if k < 0.94:
            return ["filter", ["call", ["attr", N("d1"), "values"], [], []], "list", [], []]
        return ["cond", self.list_int(d - 1), self.bool_(d - 1), self.list_int(d - 1)]

    def list_int_strict(self, d):
        """A real list (not a tuple) so + works."""
        r = self.r
        if r.random() < 0.5:
            return self.pick([N("l1"), N("l2")])
        return ["list", [self.int_(max(d, 0)) for _ in range(r.randint(0, 2))]]

    def any_list(self, d):
        r = self.r
        k = r.random()
        if k < 0.6:
            return self.list_int(d)
        if k < 0.74:
            return N("ls")
        if k < 0.8:
            # unique: first occurrences, case-insensitive unless asked otherwise
            subj = ["bin", "+", N("ls"), ["list", [C(x) for x in r.sample(["a", "A", "b", "Xy", "xy", "B"], 3)]]]
            cs = r.choice([None, True, False])
            return ["filter", ["filter", subj, "unique", [] if cs is None else [C(cs)], []], "list", [], []]
        if k < 0.9:
            return self.str_(d)
        return N("d1")

    def undef_(self, d):
        r = self.r
        k = r.random()
        if k < 0.5:
            return self.name_of("undef")
        if k < 0.65:
            return ["attr", N("d1"), "nope"]
        if k < 0.75:
            return ["item", N("l1"), C(99)]
        if k < 0.85:
            return ["cond", self.int_(0), C(False), None]
        if k < 0.9:
            return ["attr", N("o1"), "zz"]
        if k < 0.96:
            # |attr never looks items up: d1 HAS the keys a / k, no such attributes
            return ["filter", N("d1"), "attr", [C(self.pick(["a", "k", "nope"]))], []]
        return ["item", N("d1"), C(0)]

    def defined_any(self, d):
        r = self.r
        k = r.random()
        if k < 0.3:
            return self.int_(d)
        if k < 0.5:
            return self.str_(d)
        if k < 0.7:
            return self.list_int(d)
        if k < 0.8:
            return N("d1")
        if k < 0.9:
            return N("n1")
        return self.num_(d)

    def any_(self, d):
        r = self.r
        k = r.random()
        if k < 0.12:
            return self.undef_(d)
        if k < 0.2:
            return self.bool_(d)
        return self.defined_any(d)

    def expr(self, d):
        r = self.r
        k = r.random()
        if k < 0.3:
            return self.int_(d)
        if k < 0.45:
            return self.num_(d)
        if k < 0.65:
            return self.str_(d)
        if k < 0.82:
            return self.bool_(d)
        if k < 0.92:
            return self.list_int(d)
        return self.any_(d)


def skeleton(e):
    """Operator-shape skeleton: leaves erased."""
    k = e[0]
    if k in ("const", "name"):
        return "_"
    if k == "un":
        return [e[1], skeleton(e[2])]
    if k == "bin":
        return [e[1], skeleton(e[2]), skeleton(e[3])]
    if k == "cmp":
        return ["cmp", skeleton(e[1]), [[op, skeleton(x)] for op, x in e[2]]]
    if k in ("and", "or"):
        return [k, skeleton(e[1]), skeleton(e[2])]
    if k == "cond":
        return ["cond", skeleton(e[1]), skeleton(e[2]), None if e[3] is None else skeleton(e[3])]
    if k in ("attr",):
        return ["attr", skeleton(e[1])]
    if k == "item":
        return ["item", skeleton(e[1]), skeleton(e[2])]
    if k == "slice":
        return ["slice", skeleton(e[1])]
    if k in ("list", "tuple"):
        return [k, len(e[1])]
    if k == "dict":
        return ["dict", len(e[1])]
    if k == "call":
        return ["call", skeleton(e[1]), [skeleton(a) for a in e[2]]]
    if k == "filter":
        return ["filter", e[2], skeleton(e[1]), [skeleton(a) for a in e[3]]]
    if k == "test":
        return ["test", e[2], skeleton(e[1]), e[4]]
    return k


def prec_levels(e, acc=None):
    """Set of distinct binary precedence classes used in the tree."""
    from vt.gen import jast

    acc = set() if acc is None else acc

    def fn(x):
        if x[0] == "bin":
            acc.add(jast.BINP[x[1]])
        elif x[0] in ("and", "or", "cmp", "cond"):
            acc.add(x[0])
        elif x[0] == "un":
            acc.add("un" + x[1])

    jast.walk_expr(e, fn)
    return acc
