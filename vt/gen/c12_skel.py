"""Skeleton generators for C12 (render) and C39 (lex).  Skeleton format: see
vt.model.c12_trim.  All randomness comes from the rng handed in."""
from __future__ import annotations

from vt.model import c12_trim as M

# text-run alphabets ---------------------------------------------------------
#: 1-tag exhaustive: every rule-relevant shape of a run, incl. tabs and the
#: three line-break forms
T1 = ["", "a", " ", "\n", " \n", "\n ", " \n ", "\n\n", "a\n ", "\n a", " a", "a ",
      "\t", "\r\n", "\r", "\n\t", " \r\n ", "\r\r\n", " \n\n  ", "a \n\t "]
T1_QUICK = ["", "a", " ", "\n", " \n", "\n ", " \n ", "\n\n", "a\n ", " a", "\t\r\n\t", "\r"]
#: 2-tag exhaustive (quick / thorough); "\n " lets '-', trim_blocks and lstrip_blocks all
#: apply, " " is the blank run on the line of the previous tag
T2_QUICK = ["\n ", " "]
T2_THOROUGH = ["", "a", " ", "\n ", " \n ", "\n"]
#: 3-tag exhaustive (thorough): outer runs / inner runs
T3_OUTER = ["\n "]
T3_INNER = ["", " ", "\n "]

_TEXT_UNITS = [" ", " ", "\t", "\n", "\n", "\r\n", "\r", "a", "b", "xy", "  ", "\n\n"]
_RAW_UNITS = _TEXT_UNITS + ["{{ x }}", "{% if %}", "{# c #}", "{{", "%}", "{%-", "-%}", "}}"]


def rich_text(rng, raw=False, maxlen=6):
    n = rng.choice((0, 1, 1, 2, 2, 3, 3, 4, 5, maxlen))
    units = _RAW_UNITS if raw else _TEXT_UNITS
    return "".join(rng.choice(units) for _ in range(n))


# renderable tags --------------------------------------------------------------
_SET_INNERS = [" set x = 1 ", " set x=1 ", "set x = 1", "  set  x = 1  ", " set x = 'q' "]
_IF_INNERS = [" if true ", " if 1 ", "if true", " if not false ", "  if true  "]
_ENDIF_INNERS = [" endif ", "endif", "  endif  "]
_FOR_INNERS = [" for i in [1] ", " for i in 'z' ", "for i in [1]"]
_ENDFOR_INNERS = [" endfor ", "endfor"]
_CMT_INNERS = [" c ", " ", "c", " a b ", " {{ x }} ", " {% if %} ", "  c  d  "]
_VAR = [(" 'V' ", "V"), ("'W'", "W"), (" m ", "M"), (" 'p' ~ 'q' ", "pq"), (' "U" ', "U")]
_RAW_INNERS = [" raw ", "raw", "  raw  "]
_ENDRAW_INNERS = [" endraw ", "endraw", "  endraw  "]
RENDER_CONTEXT = {"m": "M"}

# lex-only (C39) variants: may span lines, need not be renderable
_ML_BLOCK = [" set x = [1,\n 2] ", " if a\n and b ", "\n if true\n", " for k, v in {'a':\n 1}.items() ",
             " set y = 'one\ntwo' ", " endif\n", " set z = (1 +\n\n 2) ", " if x is\r\ndefined ",
             " include 'a.html' ", " block b ", " endblock "]
_ML_CMT = [" c\n d ", "\n", " a\r\nb\rc ", "\n\n c \n", " {% if %}\n {{ x }} "]
_ML_VAR = [" 'V'\n ", "\n x ", " [1,\n2]|length ", " {'a':\n1}['a'] ", " f(a,\r\n b) ", " 'q\nr' ",
           " x|default(\n'z')\n"]
_ML_RAW_UNITS = _RAW_UNITS + ["\n", "\r\n", " \n ", "{% raw %}"]

DELIMS = {
    "default": M.DEFAULT_DELIMS,
    "angle": {"bs": "<%", "be": "%>", "vs": "${", "ve": "}", "cs": "<#", "ce": "#>"},
    "html": {"bs": "<?", "be": "?>", "vs": "<<", "ve": ">>", "cs": "<!--", "ce": "-->"},
    "square": {"bs": "[%", "be": "%]", "vs": "[[", "ve": "]]", "cs": "[#", "ce": "#]"},
}


def _mods(rng, kind, pmod=0.55):
    ls, rs = M.ALLOWED_MODS[kind]
    l = rng.choice(ls) if rng.random() < pmod else ""
    r = rng.choice(rs) if rng.random() < pmod else ""
    return l, r


def _tag(rng, kind, inner, out=None):
    l, r = _mods(rng, kind)
    t = {"k": kind, "l": l, "r": r, "in": inner}
    if kind == "var":
        t["out"] = out
    return t


def random_tags(rng, ntags, lex=False, square=False):
    """A valid flat list of exactly-or-nearly ntags tags (pairs count 2).  With
    lex=True tags may span lines and use arbitrary statement names."""
    tags = []

    def single():
        c = rng.random()
        if c < 0.34:
            if lex and rng.random() < 0.5:
                inner = rng.choice(_ML_BLOCK)
                if square:
                    inner = inner.replace("[", "(").replace("]", ")")
                return [_tag(rng, "block", inner)]
            return [_tag(rng, "block", rng.choice(_SET_INNERS))]
        if c < 0.62:
            inner = rng.choice(_ML_CMT if lex and rng.random() < 0.5 else _CMT_INNERS)
            return [_tag(rng, "comment", inner)]
        if lex and rng.random() < 0.5:
            inner = rng.choice(_ML_VAR)
            if square:
                inner = inner.replace("[", "(").replace("]", ")")
            return [_tag(rng, "var", inner, "")]
        inner, out = rng.choice(_VAR)
        return [_tag(rng, "var", inner, out)]

    def atoms(budget, depth):
        out = []
        while budget > 0:
            c = rng.random()
            if budget >= 2 and c < 0.22 and depth < 3:
                k = rng.randint(0, budget - 2)
                if rng.random() < 0.7:
                    o, e = rng.choice(_IF_INNERS), rng.choice(_ENDIF_INNERS)
                else:
                    o, e = rng.choice(_FOR_INNERS), rng.choice(_ENDFOR_INNERS)
                if square:
                    o = o.replace("[1]", "'z'")
                inner = atoms(k, depth + 1)
                out += [_tag(rng, "block", o)] + inner + [_tag(rng, "block", e)]
                budget -= 2 + len(inner)
            elif budget >= 2 and c < 0.42:
                out += [_tag(rng, "raw_open", rng.choice(_RAW_INNERS)),
                        _tag(rng, "raw_close", rng.choice(_ENDRAW_INNERS))]
                budget -= 2
            else:
                out += single()
                budget -= 1
        return out

    tags = atoms(ntags, 0)
    return tags


def random_skeleton(rng, ntags, lex=False, delims="default"):
    tags = random_tags(rng, ntags, lex=lex, square=(delims == "square"))
    skel = [rich_text(rng)]
    for i, t in enumerate(tags):
        skel.append(t)
        raw = t["k"] == "raw_open"
        if raw and lex and rng.random() < 0.5:
            n = rng.randint(0, 6)
            body = "".join(rng.choice(_ML_RAW_UNITS) for _ in range(n))
        else:
            body = rich_text(rng, raw=raw)
        if delims != "default" and raw:
            # look-alikes of the default syntax are plain text under other
            # delimiters; keep them (nothing in them starts 'endraw')
            pass
        skel.append(body)
    return skel


def skeleton_from(seq, mods, texts):
    """Fixed-shape skeleton for the exhaustive parts."""
    skel = [texts[0]]
    for t, (l, r), tx in zip(seq, mods, texts[1:]):
        skel.append(M.make_tag(t, l, r))
        skel.append(tx)
    return skel
