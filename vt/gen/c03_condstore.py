"""C03 helper: statement generator that also emits "conditional store after a nested read".

The plain `stmtgen.SGen` rarely produces an `if` statement whose branches assign a name
that (a) nothing at that scope level or around it has touched before and (b) a nested
scope (loop body, filter block, block set, `with` body, macro called early) has already
read.  The documented rule for that shape is simple - `if` shares the enclosing scope, so
until one of the branches has run the name still has the value it had before (usually the
one passed to render()) - and it exercises the merge of the per-branch symbol tables.

`CondStoreGen` draws such groups of statements with every combination of: where the nested
reader stands (before the `if` / inside a branch ahead of the assignment), the kind of the
reader, with or without elif / else, and which branches assign the name.  It also prefers a
name that the program has not mentioned so far.  Plus a static feature scan used for the
non-vacuity counters of the check.
"""
from __future__ import annotations

from vt.gen import jast
from vt.gen.stmtgen import SGen, C, N, F, POOL

READERS = ["for", "filterblock", "setblock", "with", "macro"]


class CondStoreGen(SGen):
    P_GROUP = 0.04

    def __init__(self, rng, opts=None):
        super().__init__(rng, opts)
        self.seen = []

    def pv(self):
        v = super().pv()
        if v not in self.seen:
            self.seen.append(v)
        return v

    def fresh(self):
        cand = [n for n in self.o.pool if n not in self.seen]
        if cand and self.r.random() < 0.75:
            v = self.pick(cand)
            self.seen.append(v)
            return v
        return self.pv()

    # -- a nested scope whose body prints the name
    def reader(self, st, v):
        r = self.r
        show = [["text", "<"], ["out", self.pick([N(v), F(N(v), "default", C("-")),
                                                  ["test", N(v), "defined", [], False]])], ["text", ">"]]
        kind = self.pick(READERS)
        if kind == "for":
            return [["for", ["i9"], ["list", [C(1)] * r.randint(1, 2)], show, None, None, False]]
        if kind == "filterblock":
            return [["filterblock", "upper", [], show]]
        if kind == "setblock":
            other = self.pick([n for n in self.o.pool if n != v])
            return [["setblock", other, show], ["out", N(other)]]
        if kind == "with":
            other = self.pick([n for n in self.o.pool if n != v])
            return [["with", [[other, C(r.randint(0, 9))]], show]]
        self.nmacro += 1
        name = f"m{self.nmacro}"
        return [["macro", name, [], show], ["out", ["call", N(name), [], []]]]

    def group(self, st):
        r = self.r
        v = self.fresh()
        self.feat.add("condstore_group")
        inside = r.random() < 0.4          # reader inside the first branch, ahead of the assignment
        nbr = 2 if r.random() < 0.3 else 1
        has_else = r.random() < 0.7
        every = r.random() < 0.6           # every branch assigns the name
        out = [] if inside else self.reader(st, v)
        if not inside and r.random() < 0.3:
            out.append(self.marker())
        branches = []
        for i in range(nbr):
            b = []
            if i == 0 and inside:
                b += self.reader(st, v)
            if every or i == 0 or r.random() < 0.5:
                b.append(["set", v, C(r.randint(1, 9))])
            else:
                b.append(self.marker())
            branches.append([self.cond_expr_without(st, v), b])
        els = None
        if has_else:
            els = [["set", v, C(r.randint(1, 9))]] if (every or r.random() < 0.5) else [self.marker()]
        out.append(["if", branches, els])
        out.append(["out", ["bin", "~", ["bin", "~", C("["), N(v)], C("]")]])
        if r.random() < 0.5:
            # and a reader after the statement: sees the assigned value
            out += self.reader(st, v)
        self.budget -= 3
        return out

    def cond_expr_without(self, st, v):
        """A condition that does not mention `v` (a same-level read is another shape)."""
        saved = self.o.pool
        self.o.pool = [n for n in saved if n != v]
        try:
            return self.cond_expr(st)
        finally:
            self.o.pool = saved

    def stmt(self, st):
        if st["depth"] < self.o.max_depth and self.r.random() < self.P_GROUP:
            return self.group(st)
        return super().stmt(st)


# ------------------------------------------------------------------ feature scan
def _expr_names(exprs):
    out = set()
    for e in exprs:
        if e is not None:
            jast.walk_expr(e, lambda x: out.add(x[1]) if x[0] == "name" else None)
    return out


def _all_refs(body):
    """Every name read or assigned anywhere in `body` (nested bodies included)."""
    out = set()

    def fn(s):
        out.update(_expr_names(jast.stmt_exprs(s)))
        if s[0] in ("set", "setblock", "macro"):
            out.add(s[1])
        if s[0] == "for":
            out.update(s[1])
        if s[0] == "with":
            out.update(n for n, _ in s[1])
        if s[0] in ("macro", "callblock"):
            out.update(p for p, _ in (s[2] if s[0] == "macro" else s[1]))

    jast.walk_stmts(body, fn)
    return out


def condstore_features(body):
    """Static features:
    cond_store_after_nested_read        an assignment inside an `if` branch to a name that the
                                        scope level has not touched before, after (textually) a
                                        nested scope of that level read the name
    ..._every_branch                    same, the `if` has an else and every branch assigns it
    ..._ctx_only                        same as the first, and no enclosing scope mentions the
                                        name either (the value can only come from render())
    """
    feats = set()

    def scope(body, outer_refs):
        level = set()         # names read/assigned at this level so far
        nested = set()        # names read inside nested scopes of this level so far

        def seq(stmts, cond):
            for s in stmts:
                k = s[0]
                if k == "if":
                    level.update(_expr_names(c for c, _ in s[1]))
                    before_level, before_nested = set(level), set(nested)
                    branches = [b for _, b in s[1]] + ([s[2]] if s[2] is not None else [])
                    for b in branches:
                        seq(b, True)
                    if s[2] is not None:
                        common = None
                        for b in branches:
                            st_b = {x[1] for x in b if x[0] in ("set", "setblock")}
                            common = st_b if common is None else common & st_b
                        for n in sorted(common or ()):
                            if n not in before_level and n in nested:
                                feats.add("cond_store_after_nested_read_every_branch")
                    continue
                if k in ("set", "setblock"):
                    level.update(_expr_names(jast.stmt_exprs(s)))
                    n = s[1]
                    if k == "setblock":
                        nested.update(_all_refs(s[2]))
                        scope(s[2], outer_refs | whole)
                    if cond and n not in level and n in nested:
                        feats.add("cond_store_after_nested_read")
                        if n not in outer_refs:
                            feats.add("cond_store_after_nested_read_ctx_only")
                    level.add(n)
                    continue
                if k == "macro":
                    level.add(s[1])
                    nested.update(_all_refs(s[3]) - {p for p, _ in s[2]})
                    scope(s[3], outer_refs | whole)
                    continue
                if k == "for":
                    level.update(_expr_names([s[2]]))
                    inner = _all_refs(s[3]) | _expr_names([s[5]])
                    nested.update(inner - set(s[1]))
                    scope(s[3], outer_refs | whole)
                    if s[4] is not None:
                        nested.update(_all_refs(s[4]))
                        scope(s[4], outer_refs | whole)
                    continue
                if k == "with":
                    level.update(_expr_names(v for _, v in s[1]))
                    nested.update(_all_refs(s[2]) - {n for n, _ in s[1]})
                    scope(s[2], outer_refs | whole)
                    continue
                if k == "callblock":
                    level.update(_expr_names([s[2]]))
                    nested.update(_all_refs(s[3]) - {p for p, _ in s[1]})
                    scope(s[3], outer_refs | whole)
                    continue
                if k == "filterblock":
                    level.update(_expr_names(s[2]))
                    nested.update(_all_refs(s[3]))
                    scope(s[3], outer_refs | whole)
                    continue
                level.update(_expr_names(jast.stmt_exprs(s)))

        whole = _level_refs(body)
        seq(body, False)

    scope(body, set())
    return feats


def _level_refs(body):
    """Names read or assigned at the level of `body` itself (if-branches belong to the level)."""
    out = set()
    for s in body:
        k = s[0]
        if k == "if":
            out.update(_expr_names(c for c, _ in s[1]))
            for _, b in s[1]:
                out.update(_level_refs(b))
            if s[2] is not None:
                out.update(_level_refs(s[2]))
        elif k == "for":
            out.update(_expr_names([s[2]]))
        elif k == "macro":
            out.add(s[1])
        elif k == "filterblock":
            out.update(_expr_names(s[2]))
        elif k == "callblock":
            out.update(_expr_names([s[2]]))
        else:
            out.update(_expr_names(jast.stmt_exprs(s)))
            if k in ("set", "setblock"):
                out.add(s[1])
    return out
