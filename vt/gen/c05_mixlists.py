"""C05: template sets whose include targets are name lists MIXING plain names (existing and
missing) with Template objects, written as list literals or passed through the context, plus
the same kind of lists for the Python API (select_template / get_or_select_template).

An entry of a list is JSON-able: a template name (str) or {"$tpl": name} standing for the
Template object of that name (made by the harness with env.get_template)."""
from __future__ import annotations

from vt.gen.stmtgen import C, N
from vt.gen.tplgen import IGen

OBJ_ONLY = "objt"          # a template that is only ever referred to through a Template object
MISSING = ["nope", "nope2"]


def is_obj(e):
    return isinstance(e, dict) and "$tpl" in e


def shape(entries, existing):
    """Position class of the Template objects of a list relative to the names before them."""
    out = set()
    seen_existing = False
    seen_any = False
    for e in entries:
        if is_obj(e):
            if not seen_any:
                out.add("object_first")
            elif seen_existing:
                out.add("object_after_existing_name")
            else:
                out.add("object_after_missing_only")
            seen_existing = True
        elif e in existing:
            seen_existing = True
        seen_any = True
    if not any(is_obj(e) for e in entries):
        out.add("names_only")
    return sorted(out)


class IGenMix(IGen):
    P_MIXED = 0.22

    def __init__(self, rng):
        super().__init__(rng)
        self.api = []

    def entries(self, incs, lo, hi, force_obj):
        r = self.r
        kinds = [self.pick(["missing", "name", "name", "obj", "obj"]) for _ in range(r.randint(lo, hi))]
        if force_obj and "obj" not in kinds:
            kinds[r.randrange(len(kinds))] = "obj"
        out, used = [], []
        for k in kinds:
            if k == "missing":
                out.append(self.pick(MISSING))
            elif k == "name":
                n = self.pick(incs)
                used.append(n)
                out.append(n)
            else:
                # prefer an object that differs from every name before it, so that picking
                # the object instead of an earlier name (or the reverse) is visible
                cands = [t for t in incs + [OBJ_ONLY] if t not in used]
                out.append({"$tpl": self.pick(cands)})
        return out

    def mixed_list_stmt(self, incs, data):
        r = self.r
        wc = self.pick([None, None, True, False])
        if wc is False:
            self.info.add("include_without_context")
        im = r.random() < 0.4
        if im:
            self.info.add("ignore_missing")
        ents = self.entries(incs, 2, 4, True)
        self.info.add("include_list")
        self.info.add("include_list_with_object")
        for s in shape(ents, set(incs)):
            self.info.add("list_" + s)
        if r.random() < 0.35:
            var = f"choices{self.next()}"
            data[var] = ents
            self.info.add("include_list_from_context")
            return ["include", N(var), wc, im]
        items = []
        for e in ents:
            if is_obj(e):
                var = f"tobj{self.next()}"
                data[var] = e
                items.append(N(var))
            else:
                items.append(C(e))
        return ["include", ["list", items], wc, im]

    def inc_stmt(self, incs, data):
        if self.r.random() < self.P_MIXED:
            return self.mixed_list_stmt(incs, data)
        return super().inc_stmt(incs, data)

    def tset(self):
        tpls, data, glob = super().tset()
        tpls[OBJ_ONLY] = self.show(OBJ_ONLY)
        incs = sorted(n for n in tpls if n.startswith("inc"))
        self.api = [self.entries(incs, 1, 4, self.r.random() < 0.7) for _ in range(2)]
        return tpls, data, glob
