"""Closed (name-free) expression trees for C02: every operand is a compile-time constant.

The compiler may evaluate such expressions itself instead of emitting code for them, so they take
a different route through the engine than the same operators applied to context values.  The trees
use the JSON-able node format of vt.gen.jast and are type-directed so that most of them are
well-typed in BOTH operand orders (str vs str, list vs list-of-lists, tuple vs tuple-of-tuples,
number vs number): an operator whose operands get mixed up then yields a wrong value rather than
an error.  Operands include literals, container literals of literals, and constant
sub-expressions (``'a' ~ 'b'``, ``[1] + [2]``, ``2 * 3``, ``'x' if true else 'y'``).
"""
from __future__ import annotations

STRS = ["a", "b", "ab", "abc", "bc", "", "xaby", "A", "1", "a b"]
INTS = [0, 1, 2, 3, 5, 10]
CMP_ALL = ["==", "!=", "<", "<=", ">", ">=", "in", "not in"]
CMP_ORD = ["==", "!=", "<", "<=", ">", ">="]
CMP_IN = ["in", "not in"]


def C(v):
    return ["const", v]


class ClosedGen:
    def __init__(self, rng):
        self.r = rng

    def pick(self, xs):
        return xs[self.r.randrange(len(xs))]

    # ------------------------------------------------------------ scalars
    def int_(self, d):
        r = self.r
        if d <= 0 or r.random() < 0.4:
            return C(self.pick(INTS))
        k = r.random()
        if k < 0.6:
            return ["bin", self.pick(["+", "-", "*", "//", "%"]), self.int_(d - 1), self.int_(d - 1)]
        if k < 0.7:
            return ["bin", "**", self.int_(d - 1), C(self.pick([0, 1, 2, 3]))]
        if k < 0.8:
            return ["un", "-", self.int_(d - 1)]
        if k < 0.9:
            return ["cond", self.int_(d - 1), self.bool_(d - 1), self.int_(d - 1)]
        return ["filter", self.seq_(d - 1, self.pick(["list", "tuple"]), "int"), "length", [], []]

    def num_(self, d):
        r = self.r
        if r.random() < 0.7:
            return self.int_(d)
        if d <= 0 or r.random() < 0.5:
            return C(self.pick([0.5, 2.5, 1.25, 2.0]))
        return ["bin", self.pick(["+", "-", "*", "/"]), self.num_(d - 1), self.num_(d - 1)]

    def str_(self, d):
        r = self.r
        if d <= 0 or r.random() < 0.4:
            return C(self.pick(STRS))
        k = r.random()
        if k < 0.3:
            return ["bin", "~", self.scalar_(d - 1), self.scalar_(d - 1)]
        if k < 0.45:
            return ["bin", "+", self.str_(d - 1), self.str_(d - 1)]
        if k < 0.55:
            return ["bin", "*", self.str_(d - 1), C(self.pick([0, 1, 2]))]
        if k < 0.7:
            return ["filter", self.str_(d - 1), self.pick(["upper", "lower", "trim"]), [], []]
        if k < 0.8:
            return ["cond", self.str_(d - 1), self.bool_(d - 1), self.str_(d - 1)]
        if k < 0.9:
            return ["slice", self.str_(d - 1), C(self.pick([0, 1])) if r.random() < .6 else None,
                    C(self.pick([1, 2, 3])) if r.random() < .6 else None, None]
        return ["or", self.str_(d - 1), self.str_(d - 1)] if r.random() < .5 else \
            ["and", self.str_(d - 1), self.str_(d - 1)]

    def scalar_(self, d):
        return self.str_(d) if self.r.random() < 0.6 else self.int_(d)

    def elem_(self, d, ty):
        if ty == "int":
            return self.int_(d)
        if ty == "str":
            return self.str_(d)
        kind, inner = ty
        return self.seq_(d, kind, inner)

    # --------------------------------------------------------- containers
    def seq_(self, d, kind, ty, must=None):
        """A list/tuple expression whose elements have type ty; `must` (a tree) is placed among
        the elements when given."""
        r = self.r
        n = r.randint(0, 3) if must is None else r.randint(0, 2)
        items = [self.elem_(max(d - 1, 0), ty) for _ in range(n)]
        if must is not None:
            items.insert(r.randint(0, len(items)), must)
        if kind == "tuple" and not items:
            items = [self.elem_(max(d - 1, 0), ty)]
        lit = [kind, items]
        if d > 0 and must is None and r.random() < 0.25:
            return ["bin", "+", lit, self.seq_(d - 1, kind, ty)]
        if d > 0 and must is None and r.random() < 0.1:
            return ["cond", lit, self.bool_(d - 1), self.seq_(d - 1, kind, ty)]
        return lit

    # -------------------------------------------------------------- bools
    def related_pair(self, d):
        """Two closed operands of one type family, related by containment one way, the other
        way, or not at all, so that `x in y` and `y in x` are both well-typed."""
        r = self.r
        fam = r.random()
        how = r.random()   # <.45: left inside right, <.7: right inside left, else unrelated
        if fam < 0.45:
            a = self.str_(d)
            if a[0] == "const" and how < 0.7:
                b = C(self.pick(["", "x", "a"]) + a[1] + self.pick(["", "y", "c"]))
            elif how < 0.7:
                b = ["bin", self.pick(["~", "+"]), ["bin", "~", self.str_(0), a], self.str_(0)]
            else:
                b = self.str_(d)
            fam_name = "str"
        else:
            kind = "list" if fam < 0.8 else "tuple"
            ty = self.pick(["int", "int", "str"])
            a = self.seq_(d, kind, ty)
            if how < 0.7:
                b = self.seq_(d, self.pick([kind, kind, "list"]), (kind, ty), must=a)
            else:
                b = self.seq_(d, kind, (kind, ty)) if r.random() < .5 else self.seq_(d, kind, ty)
            fam_name = kind
        if 0.45 <= how < 0.7:
            a, b = b, a
        return a, b, fam_name

    def cmp_(self, d):
        r = self.r
        k = r.random()
        if k < 0.5:
            a, b, _ = self.related_pair(d - 1)
            ops = [[self.pick(CMP_IN), b]]
            if r.random() < 0.25:
                # chained: a in b <op> c
                op2 = self.pick(CMP_ALL)
                c = self.seq_(0, "list", "str") if op2 in CMP_IN and r.random() < .5 else self.related_pair(0)[1]
                ops.append([op2, c])
            return ["cmp", a, ops]
        if k < 0.62:
            # element in container (scalar left operand)
            ty = self.pick(["int", "str"])
            e = self.elem_(d - 1, ty)
            cont = self.seq_(d - 1, self.pick(["list", "tuple"]), ty, must=e if r.random() < .5 else None)
            if ty == "str" and r.random() < 0.3:
                cont = ["dict", [[self.str_(0), self.int_(0)] for _ in range(r.randint(0, 2))]]
            return ["cmp", e, [[self.pick(CMP_IN), cont]]]
        if k < 0.8:
            n = 1 if r.random() < 0.7 else 2
            f = self.pick([self.num_, self.str_])
            return ["cmp", f(d - 1), [[self.pick(CMP_ORD), f(d - 1)] for _ in range(n)]]
        if k < 0.9:
            kind = self.pick(["list", "tuple"])
            return ["cmp", self.seq_(d - 1, kind, "int"), [[self.pick(CMP_ORD), self.seq_(d - 1, kind, "int")]]]
        # any closed operands, any comparison: ill-typed combinations must raise alike
        return ["cmp", self.any_(d - 1), [[self.pick(CMP_ALL), self.any_(d - 1)]]]

    def bool_(self, d):
        r = self.r
        if d <= 0:
            return C(self.pick([True, False]))
        k = r.random()
        if k < 0.6:
            return self.cmp_(d)
        if k < 0.75:
            return [self.pick(["and", "or"]), self.bool_(d - 1), self.bool_(d - 1)]
        if k < 0.87:
            return ["un", "not", self.bool_(d - 1)]
        if k < 0.95:
            return ["cond", self.bool_(d - 1), self.bool_(d - 1), self.bool_(d - 1)]
        return ["test", self.int_(d - 1), self.pick(["odd", "even"]), [], r.random() < 0.3]

    def any_(self, d):
        k = self.r.random()
        if k < 0.3:
            return self.str_(d)
        if k < 0.5:
            return self.num_(d)
        if k < 0.8:
            return self.seq_(d, self.pick(["list", "tuple"]), self.pick(["int", "str", ("list", "int")]))
        if k < 0.9:
            return C(None)
        return self.bool_(d)

    def expr(self, d):
        """Root: mostly something whose value depends on a closed comparison."""
        r = self.r
        k = r.random()
        d = max(d, 1)
        if k < 0.45:
            return self.bool_(d)
        if k < 0.6:
            return ["cond", self.str_(d - 1), self.cmp_(d), self.str_(d - 1) if r.random() < .8 else None]
        if k < 0.7:
            return ["bin", "~", self.str_(d - 1), self.cmp_(d)]
        if k < 0.8:
            return self.str_(d)
        if k < 0.9:
            return self.num_(d)
        return self.any_(d)


def classify(e):
    """Counter names for a closed tree: which kinds of all-constant comparisons it contains."""
    from vt.gen import jast

    out = set()

    def scalarish(x):
        return x[0] not in ("list", "tuple", "dict") and not (x[0] == "bin" and x[2][0] in ("list", "tuple"))

    def fn(x):
        if x[0] != "cmp":
            return
        left = x[1]
        for op, right in x[2]:
            if op in CMP_IN:
                out.add("closed_containment_cmp")
                if right[0] in ("list", "tuple") and not scalarish(left):
                    out.add("closed_container_in_container")
                if len(x[2]) > 1:
                    out.add("closed_chained_containment")
            else:
                out.add("closed_ordering_cmp")
            left = right

    jast.walk_expr(e, fn)
    return sorted(out)
