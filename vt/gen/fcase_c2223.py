"""Shared plumbing for the C22 / C23 filter-contract checks.

* a JSON-able value encoding (so a recorded case re-creates the exact Python
  arguments in a fresh process, including tuples, attribute objects, big ints
  and non-finite floats),
* structural fingerprints for the "arguments are not modified" monitor,
* the drivers that push one (filter, value, args, kwargs) through the real
  code: ``Environment.call_filter`` and a rendered template, each in a sync
  and in an async environment.

Nothing here knows what a filter is supposed to return - that lives in
vt/model/c22_spec.py and vt/model/c23_spec.py.
"""
from __future__ import annotations

import asyncio
import collections.abc as _abc
import math

# --------------------------------------------------------------- values


class Obj:
    """Attribute-only record (no item access), identity equality."""

    def __init__(self, **kw):
        self.__dict__.update(kw)

    def __repr__(self):
        return "Obj(" + ", ".join(f"{k}={v!r}" for k, v in self.__dict__.items()) + ")"


class IterOnly:
    """Iterable that is not a sequence: no len, no reversed, no indexing."""

    def __init__(self, items):
        self._items = items

    def __iter__(self):
        return iter(list(self._items))


class AIterOnly:
    """Async iterable that can be iterated once per __aiter__ call."""

    def __init__(self, items):
        self._items = items

    def __aiter__(self):
        return agen(list(self._items))


class SizedIter:
    """A collection with __iter__ and __len__ only (no reversed, no indexing)."""

    def __init__(self, items):
        self._items = items

    def __iter__(self):
        return iter(list(self._items))

    def __len__(self):
        return len(self._items)


class RevLenOnly:
    """Only __reversed__ and __len__: reversible, sized, NOT iterable forwards
    and not subscriptable."""

    def __init__(self, items):
        self._items = items

    def __reversed__(self):
        return iter(list(self._items)[::-1])

    def __len__(self):
        return len(self._items)


class GetItemOnly:
    """The legacy sequence protocol: only __getitem__ (indexes 0..len-1, no
    negative indexes, no slices) and __len__.  iter() and reversed() work on it
    through that protocol."""

    def __init__(self, items):
        self._items = items

    def __getitem__(self, i):
        if isinstance(i, bool) or not isinstance(i, int):
            raise TypeError("indexes must be integers")
        if not 0 <= i < len(self._items):
            raise IndexError(i)
        return self._items[i]

    def __len__(self):
        return len(self._items)


class ListSub(list):
    """A list subclass (``type(x) is list`` is false)."""


class AbcMapping(_abc.Mapping):
    """A Mapping that is not a dict: __getitem__/__iter__/__len__ + mixins."""

    def __init__(self, d):
        self._d = d

    def __getitem__(self, k):
        return self._d[k]

    def __iter__(self):
        return iter(list(self._d))

    def __len__(self):
        return len(self._d)


# ---- string-like subjects (C23) -------------------------------------------
class StrSub(str):
    """A plain str subclass (no __html__)."""


class HasHtml:
    """Implements the __html__ protocol; str() is an unrelated plain text."""

    def __init__(self, html, text):
        self._html = html
        self._text = text

    def __html__(self):
        return self._html

    def __str__(self):
        return self._text

    def __repr__(self):
        return f"HasHtml(html={self._html!r}, str={self._text!r})"


class HtmlOnly:
    """Implements only __html__ (str() is the default object repr)."""

    def __init__(self, html):
        self._html = html

    def __html__(self):
        return self._html

    def __repr__(self):
        return f"<HtmlOnly {self._html!r}>"


class StrOnly:
    """An object whose only text form is __str__."""

    def __init__(self, text):
        self._text = text

    def __str__(self):
        return self._text

    def __repr__(self):
        return f"StrOnly({self._text!r})"


class LazyStr:
    """A lazy string (gettext-style proxy): the text is computed on demand and
    every str operation is forwarded to it; not a str instance, no __html__."""

    def __init__(self, text):
        self._f = lambda: text

    def __str__(self):
        return self._f()

    def __repr__(self):
        return f"LazyStr({self._f()!r})"

    def __getattr__(self, name):
        if name.startswith("__"):
            raise AttributeError(name)
        return getattr(self._f(), name)

    def __len__(self):
        return len(self._f())

    def __getitem__(self, i):
        return self._f()[i]

    def __iter__(self):
        return iter(self._f())

    def __contains__(self, x):
        return x in self._f()

    def __add__(self, o):
        return self._f() + o

    def __radd__(self, o):
        return o + self._f()

    def __mod__(self, o):
        return self._f() % o

    def __eq__(self, o):
        return self._f() == o

    def __hash__(self):
        return hash(self._f())


def gen(items):
    for x in items:
        yield x


async def agen(items):
    for x in items:
        yield x


def enc(v):
    """Python value -> JSON-able encoding (inverse of dec)."""
    if v is None or isinstance(v, (bool, str)):
        return v
    if isinstance(v, int):
        if abs(v) > 2 ** 53:
            return {"$i": str(v)}
        return v
    if isinstance(v, float):
        if v != v:
            return {"$f": "nan"}
        if v in (math.inf, -math.inf):
            return {"$f": "inf" if v > 0 else "-inf"}
        return {"$f": v.hex()}
    if isinstance(v, list):
        return [enc(x) for x in v]
    if isinstance(v, tuple):
        return {"$t": [enc(x) for x in v]}
    if isinstance(v, Obj):
        return {"$o": {k: enc(x) for k, x in vars(v).items()}}
    if isinstance(v, dict):
        if all(isinstance(k, str) and not k.startswith("$") for k in v):
            return {k: enc(x) for k, x in v.items()}
        return {"$d": [[enc(k), enc(x)] for k, x in v.items()]}
    if isinstance(v, (set, frozenset)):
        return {"$s": [enc(x) for x in sorted(v, key=repr)]}
    if isinstance(v, bytes):
        return {"$b": v.hex()}
    raise TypeError(f"cannot encode {type(v).__name__}")


def dec(e):
    if e is None or isinstance(e, (bool, int, str)):
        return e
    if isinstance(e, float):  # tolerated, enc never produces it
        return e
    if isinstance(e, list):
        return [dec(x) for x in e]
    if isinstance(e, dict):
        if len(e) == 1:
            (k, x), = e.items()
            if k == "$i":
                return int(x)
            if k == "$f":
                if x in ("nan", "inf", "-inf"):
                    return float(x)
                return float.fromhex(x)
            if k == "$t":
                return tuple(dec(y) for y in x)
            if k == "$o":
                return Obj(**{a: dec(y) for a, y in x.items()})
            if k == "$d":
                return {dec(a): dec(b) for a, b in x}
            if k == "$s":
                return set(dec(y) for y in x)
            if k == "$b":
                return bytes.fromhex(x)
        return {k: dec(x) for k, x in e.items()}
    raise TypeError(f"cannot decode {e!r}")


def fp(v, depth=0):
    """Structural, type-tagged fingerprint (a deep copy in comparable form)."""
    if depth > 30:
        return "<deep>"
    if v is None or isinstance(v, (bool, str, bytes)):
        return (type(v).__name__, v)
    if isinstance(v, int):
        return ("int", v)
    if isinstance(v, float):
        return ("float", "nan" if v != v else v.hex())
    if isinstance(v, list):
        return ("list", tuple(fp(x, depth + 1) for x in v))
    if isinstance(v, tuple):
        return ("tuple", tuple(fp(x, depth + 1) for x in v))
    if isinstance(v, dict):
        return ("dict", tuple((fp(k, depth + 1), fp(x, depth + 1)) for k, x in v.items()))
    if isinstance(v, Obj):
        return ("obj", tuple((k, fp(x, depth + 1)) for k, x in vars(v).items()))
    if isinstance(v, (set, frozenset)):
        return ("set", tuple(sorted((fp(x, depth + 1) for x in v), key=repr)))
    return ("other", type(v).__name__, repr(v))


def is_undefined(v):
    from jinja2 import Undefined

    return isinstance(v, Undefined)


# --------------------------------------------------------------- aliasing
_MUTABLE = (list, dict, set, Obj)


def container_map(roots):
    """id -> path of every mutable container reachable from the named roots
    (``[(name, value), ...]``): what a caller still holds after the call."""
    out = {}

    def walk(v, path, depth):
        if depth > 8:
            return
        if isinstance(v, _MUTABLE):
            if id(v) in out:
                return
            out[id(v)] = path
        if isinstance(v, (list, tuple)):
            for i, x in enumerate(v):
                walk(x, f"{path}[{i}]", depth + 1)
        elif isinstance(v, dict):
            for k, x in v.items():
                walk(x, f"{path}[{k!r}]", depth + 1)
        elif isinstance(v, Obj):
            for k, x in vars(v).items():
                walk(x, f"{path}.{k}", depth + 1)

    for name, v in roots:
        walk(v, name, 0)
    return out


def alias_signature(result, argmap):
    """(pairs, fresh): pairs = sorted (result path, argument path) for every
    mutable container inside ``result`` that IS a container of the arguments
    (not descended into: everything below is shared as well); fresh = the
    mutable containers of the result that are not shared with the arguments."""
    pairs = []
    fresh = []
    seen = set()

    def walk(v, path, depth):
        if depth > 8:
            return
        if isinstance(v, _MUTABLE):
            if id(v) in argmap:
                pairs.append((path, argmap[id(v)]))
                return
            if id(v) in seen:
                return
            seen.add(id(v))
            fresh.append(v)
        if isinstance(v, (list, tuple)):
            for i, x in enumerate(v):
                walk(x, f"{path}[{i}]", depth + 1)
        elif isinstance(v, dict):
            for k, x in v.items():
                walk(x, f"{path}[{k!r}]", depth + 1)
        elif isinstance(v, Obj):
            for k, x in vars(v).items():
                walk(x, f"{path}.{k}", depth + 1)

    walk(result, "", 0)
    return sorted(pairs), fresh


class _Poke:
    """What the harness writes into a result to see whether the arguments move."""

    def __repr__(self):
        return "<harness poke>"


POKE = _Poke()


def poke(containers):
    """Modify every given (result-owned) container in place."""
    n = 0
    for c in containers:
        try:
            if isinstance(c, list):
                c.append(POKE)
                if len(c) > 1:
                    c[0] = POKE
            elif isinstance(c, dict):
                c["$poke"] = POKE
            elif isinstance(c, set):
                c.add("$poke")
            elif isinstance(c, Obj):
                c.__dict__["poke"] = POKE
            else:
                continue
            n += 1
        except Exception:  # noqa: BLE001 - a read-only result is fine
            pass
    return n


class Sameness:
    """Deep comparison of a real result with an expected value.

    Container/object *elements of the filter input* are compared by identity
    (so 'kept the first of two equal records' and 'kept the second' differ);
    everything else is compared by type-tagged structure.  list/tuple (and
    namedtuple) are interchangeable as result containers."""

    def __init__(self, items=()):
        self.ids = {}
        for i, x in enumerate(items):
            if isinstance(x, (list, dict, Obj, tuple, set)):
                self.ids.setdefault(id(x), i)

    def same(self, a, b, depth=0):
        if a is b:
            return True
        if id(a) in self.ids or id(b) in self.ids:
            return False
        if depth > 30:
            return True
        if isinstance(a, (list, tuple)) and isinstance(b, (list, tuple)):
            return len(a) == len(b) and all(self.same(x, y, depth + 1) for x, y in zip(a, b))
        if isinstance(a, dict) and isinstance(b, dict):
            return (len(a) == len(b)
                    and all(self.same(k1, k2, depth + 1) and self.same(a[k1], b[k2], depth + 1)
                            for k1, k2 in zip(a, b)))
        if isinstance(a, bool) or isinstance(b, bool):
            return isinstance(a, bool) and isinstance(b, bool) and a == b
        if isinstance(a, float) or isinstance(b, float):
            if not (isinstance(a, float) and isinstance(b, float)):
                return False
            return (a != a and b != b) or a.hex() == b.hex()
        if isinstance(a, int) and isinstance(b, int):
            return a == b
        if isinstance(a, str) and isinstance(b, str):
            return str.__eq__(str(a), str(b)) is True
        if is_undefined(a) or is_undefined(b):
            return is_undefined(a) and is_undefined(b)
        if a is None or b is None:
            return False
        if isinstance(a, Obj) or isinstance(b, Obj):
            return False  # distinct objects
        if type(a) is not type(b):
            return False
        try:
            return bool(a == b)
        except Exception:
            return False

    def norm(self, v, depth=0):
        """Comparable description of a result (for sync/async/template agreement)."""
        if id(v) in self.ids:
            return ("$item", self.ids[id(v)])
        if depth > 30:
            return "<deep>"
        if isinstance(v, (list, tuple)):
            return ("seq", tuple(self.norm(x, depth + 1) for x in v))
        if isinstance(v, dict):
            return ("dict", tuple((self.norm(k, depth + 1), self.norm(x, depth + 1))
                                  for k, x in v.items()))
        if isinstance(v, str):
            return ("str", str(v))
        if is_undefined(v):
            return ("undefined",)
        return fp(v, depth)


# --------------------------------------------------------------- outcomes
class Outcome:
    """What one drive of the real code produced."""

    __slots__ = ("ok", "value", "exc", "text")

    def __init__(self, ok, value=None, exc=None, text=None):
        self.ok = ok
        self.value = value
        self.exc = exc
        self.text = text

    def describe(self):
        if self.ok:
            try:
                r = repr(self.value)
            except ValueError:  # int too large to print
                r = f"<{type(self.value).__name__} too large to print>"
            return r if len(r) < 400 else r[:400] + "..."
        return f"raised {type(self.exc).__name__}: {str(self.exc)[:200]}"

    def exc_name(self):
        return type(self.exc).__name__


def materialize(v):
    """Harness-side: turn a lazy sync result into a list."""
    if isinstance(v, (list, tuple, str, dict)) or v is None:
        return v
    if hasattr(v, "__next__"):
        return list(v)
    return v


async def amaterialize(v):
    import inspect

    if inspect.isawaitable(v):
        v = await v
    if hasattr(v, "__anext__") or (hasattr(v, "__aiter__") and not hasattr(v, "__iter__")):
        return [x async for x in v]
    return materialize(v)


# --------------------------------------------------------------- drivers
class Rig:
    """Sync + async environments, one event loop, template cache, recorders."""

    def __init__(self, policies=None, newline_sequence="\n"):
        from jinja2 import Environment

        self.loop = asyncio.new_event_loop()
        self.env = Environment(newline_sequence=newline_sequence)
        self.aenv = Environment(enable_async=True, newline_sequence=newline_sequence)
        for e in (self.env, self.aenv):
            if policies:
                e.policies.update(policies)
        self._tcache = {}
        self._ctx = {}

    def close(self):
        try:
            self.loop.run_until_complete(self.loop.shutdown_asyncgens())
        finally:
            self.loop.close()

    def template(self, is_async, src):
        key = (is_async, src)
        t = self._tcache.get(key)
        if t is None:
            if len(self._tcache) > 4000:
                self._tcache.clear()
            t = (self.aenv if is_async else self.env).from_string(src)
            self._tcache[key] = t
        return t

    def context(self, is_async):
        c = self._ctx.get(is_async)
        if c is None:
            c = self.template(is_async, "").new_context({})
            self._ctx[is_async] = c
        return c

    # -- Environment.call_filter ---------------------------------------
    def call(self, name, value, args, kwargs):
        try:
            r = self.env.call_filter(name, value, list(args), dict(kwargs),
                                     context=self.context(False))
            return Outcome(True, materialize(r))
        except Exception as e:
            return Outcome(False, exc=e)

    def acall(self, name, value, args, kwargs):
        async def go():
            r = self.aenv.call_filter(name, value, list(args), dict(kwargs),
                                      context=self.context(True))
            return await amaterialize(r)

        try:
            return Outcome(True, self.loop.run_until_complete(go()))
        except Exception as e:
            return Outcome(False, exc=e)

    # -- rendered template ---------------------------------------------
    def render(self, is_async, src, variables, via_render=False):
        """Render ``src``; the template reports values through rec()/rec1()."""
        got = []
        items = []

        def rec(x):
            got.append(x)
            return ""

        def rec1(x):
            items.append(x)
            return ""

        variables = dict(variables)
        variables["rec"] = rec
        variables["rec1"] = rec1
        try:
            t = self.template(is_async, src)
            if is_async and not via_render:
                text = self.loop.run_until_complete(t.render_async(variables))
            else:
                text = t.render(variables)
        except Exception as e:
            return Outcome(False, exc=e)
        if got:
            return Outcome(True, materialize(got[-1]), text=text)
        return Outcome(True, items, text=text)


def literal(v):
    """Jinja literal for simple values, else None."""
    if v is None:
        return "none"
    if v is True:
        return "true"
    if v is False:
        return "false"
    if isinstance(v, int) and abs(v) < 10 ** 12:
        return repr(v)
    if isinstance(v, float) and v == v and abs(v) != math.inf and "e" not in repr(v):
        return repr(v)
    if isinstance(v, str) and v.isascii() and v.isprintable() and not (set(v) & set("\\'\"{}%#")):
        return "'" + v + "'"
    if isinstance(v, list) and len(v) <= 8:
        parts = [literal(x) for x in v]
        if all(p is not None for p in parts):
            return "[" + ", ".join(parts) + "]"
    return None


def filter_expr(name, args, kwargs, variables, subject="data", inline=False):
    """``data|name(a0, k=k_k)``; arguments are context variables, or inline
    literals when ``inline`` and the value has a literal form."""
    parts = []
    for i, a in enumerate(args):
        lit = literal(a) if inline else None
        if lit is None:
            variables[f"a{i}"] = a
            lit = f"a{i}"
        parts.append(lit)
    for k, a in kwargs.items():
        lit = literal(a) if inline else None
        if lit is None:
            variables[f"k_{k}"] = a
            lit = f"k_{k}"
        parts.append(f"{k}={lit}")
    return f"{subject}|{name}" + (f"({', '.join(parts)})" if parts else "")
