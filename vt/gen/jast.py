"""JSON-able template AST shared by the generators, the printer and the
reference interpreter (vt.model.interp).

Expressions (lists):
  ["const", v]                     v: int | float | str | bool | None
  ["name", n]
  ["un", op, e]                    op: "-", "+", "not"
  ["bin", op, a, b]                op: + - * / // % ** ~
  ["cmp", first, [[op, e], ...]]   op: == != < <= > >= in "not in"
  ["and", a, b] ["or", a, b]
  ["cond", then, test, else|None]
  ["attr", e, name]  ["item", e, key]  ["slice", e, lo, hi, step]
  ["list", [e...]] ["tuple", [e...]] ["dict", [[k, v]...]]
  ["call", f, [args], [[kw, e]...]]
  ["filter", e, name, [args], [[kw, e]...]]
  ["test", e, name, [args], negated]

Statements:
  ["text", s] ["out", e]
  ["if", [[cond, body]...], else_body|None]
  ["for", target_names, iter, body, else_body|None, filter|None, recursive]
  ["set", name, e] ["setns", ns, attr, e] ["setblock", name, body(, [filter names])]
  ["with", [[name, e]...], body]
  ["macro", name, [[param, default|None]...], body]
  ["callblock", [[param, default|None]...], call_expr, body]
  ["filterblock", name, [args], body]
  ["break"] ["continue"]
  ["block", name, body, scoped, required]
  ["extends", e]
  ["include", e, with_context(True/False/None), ignore_missing]
  ["import", e, alias, with_context(True/False/None)]
  ["from", e, [[name, alias|None]...], with_context]
  ["autoescape", e, body]
  ["comment", s] ["raw", s]
"""
from __future__ import annotations

# precedence levels (higher binds tighter)
P_COND, P_OR, P_AND, P_NOT, P_CMP, P_ADD, P_CONCAT, P_MUL, P_POW, P_UNARY, P_FILTER, P_POST = range(12)

BINP = {"+": P_ADD, "-": P_ADD, "~": P_CONCAT, "*": P_MUL, "/": P_MUL, "//": P_MUL,
        "%": P_MUL, "**": P_POW}


class Syntax:
    """Delimiter configuration used by the printer (C13 translates these)."""

    def __init__(self, bs="{%", be="%}", vs="{{", ve="}}", cs="{#", ce="#}"):
        self.bs, self.be, self.vs, self.ve, self.cs, self.ce = bs, be, vs, ve, cs, ce

    def env_kwargs(self):
        return dict(block_start_string=self.bs, block_end_string=self.be,
                    variable_start_string=self.vs, variable_end_string=self.ve,
                    comment_start_string=self.cs, comment_end_string=self.ce)


DEFAULT = Syntax()


def str_lit(s: str) -> str:
    """A Jinja string literal for s (subset of Python escapes)."""
    out = []
    q = "'" if "'" not in s or '"' in s else '"'
    for ch in s:
        if ch == "\\":
            out.append("\\\\")
        elif ch == q:
            out.append("\\" + q)
        elif ch == "\n":
            out.append("\\n")
        elif ch == "\r":
            out.append("\\r")
        elif ch == "\t":
            out.append("\\t")
        else:
            out.append(ch)
    return q + "".join(out) + q


def const_src(v) -> str:
    if v is None:
        return "none"
    if v is True:
        return "true"
    if v is False:
        return "false"
    if isinstance(v, str):
        return str_lit(v)
    if isinstance(v, float):
        r = repr(v)
        if "inf" in r or "nan" in r:
            raise ValueError("float literal not printable")
        return r
    if isinstance(v, int):
        if v < 0:
            raise ValueError("negative const: use un")
        return str(v)
    raise TypeError(v)


def pe(e, ctx=P_COND) -> str:
    """Print expression e for a context requiring precedence >= ctx."""
    s, p = _pe(e)
    if p < ctx:
        return "(" + s + ")"
    return s


def _args(args, kwargs):
    parts = [("*" + pe(a[1], P_COND)) if a[0] == "star" else pe(a, P_COND) for a in args]
    parts += [("**" + pe(v, P_COND)) if k == "**" else f"{k}={pe(v, P_COND)}" for k, v in kwargs]
    return ", ".join(parts)


def _pe(e):
    k = e[0]
    if k == "const":
        return const_src(e[1]), P_POST
    if k == "name":
        return e[1], P_POST
    if k == "un":
        if e[1] == "not":
            return "not " + pe(e[2], P_NOT), P_NOT
        # unary minus/plus: operand parenthesised unless postfix-level so the
        # undocumented interplay with ** and filters is never relied upon
        return e[1] + pe(e[2], P_POST), P_UNARY
    if k == "bin":
        op = e[1]
        p = BINP[op]
        if op == "**":
            # documented: chained pow evaluates left to right; base/exponent
            # that are unary expressions are always parenthesised
            return pe(e[2], P_POW if e[2][0] != "un" else P_POST + 1) + " ** " + \
                pe(e[3], P_POST if e[3][0] != "bin" else P_POST + 1), P_POW
        left = pe(e[2], p)
        right = pe(e[3], p + 1)
        return f"{left} {op} {right}", p
    if k == "cmp":
        s = pe(e[1], P_CMP + 1)
        for op, r in e[2]:
            s += f" {op} " + pe(r, P_CMP + 1)
        return s, P_CMP
    if k == "and":
        return pe(e[1], P_AND) + " and " + pe(e[2], P_AND + 1), P_AND
    if k == "or":
        return pe(e[1], P_OR) + " or " + pe(e[2], P_OR + 1), P_OR
    if k == "cond":
        s = pe(e[1], P_OR) + " if " + pe(e[2], P_OR)
        if e[3] is not None:
            s += " else " + pe(e[3], P_COND)
        return s, P_COND
    if k == "attr":
        return _postfix_subject(e[1]) + "." + e[2], P_POST
    if k == "item":
        return _postfix_subject(e[1]) + "[" + pe(e[2], P_COND) + "]", P_POST
    if k == "slice":
        f = lambda x: "" if x is None else pe(x, P_COND)
        s = f(e[2]) + ":" + f(e[3])
        if e[4] is not None:
            s += ":" + f(e[4])
        return _postfix_subject(e[1]) + "[" + s + "]", P_POST
    if k == "list":
        return "[" + ", ".join(pe(x) for x in e[1]) + "]", P_POST
    if k == "tuple":
        if len(e[1]) == 1:
            return "(" + pe(e[1][0]) + ",)", P_POST
        return "(" + ", ".join(pe(x) for x in e[1]) + ")", P_POST
    if k == "dict":
        return "{" + ", ".join(pe(a) + ": " + pe(b) for a, b in e[1]) + "}", P_POST
    if k == "call":
        return _postfix_subject(e[1]) + "(" + _args(e[2], e[3]) + ")", P_POST
    if k == "filter":
        s = _postfix_subject(e[1], P_FILTER) + "|" + e[2]
        if e[3] or e[4]:
            s += "(" + _args(e[3], e[4]) + ")"
        # filters are parsed after all postfix operators: (x|f)[0], -(x|f)
        return s, P_FILTER
    if k == "test":
        s = _postfix_subject(e[1], P_FILTER) + (" is not " if e[4] else " is ") + e[2]
        if e[3]:
            s += "(" + _args(e[3], []) + ")"
        # A bare test is only safe when nothing but the end of the tag
        # follows: after a test name the parser takes a following name/literal
        # token (even `if` or `recursive`) as the test's argument.
        return "(" + s + ")", P_POST
    raise ValueError(f"unknown expr {k}")


def pe_root(e, ctx=P_COND) -> str:
    """Expression printed as the whole content of a tag (nothing follows)."""
    s = pe(e, ctx)
    if e[0] == "test":
        return s[1:-1]
    return s


def _postfix_subject(e, need=P_POST):
    s, p = _pe(e)
    if p < need:
        return "(" + s + ")"
    if e[0] == "const" and isinstance(e[1], (int, float)) and not isinstance(e[1], bool):
        return "(" + s + ")"  # 1.real / 1|abs are fine, but keep it unambiguous
    return s


def _sig(params):
    return ", ".join(n if d is None else f"{n}={pe(d)}" for n, d in params)


def ps(body, sx: Syntax = DEFAULT) -> str:
    """Print a statement list."""
    out = []
    B = lambda s: f"{sx.bs} {s} {sx.be}"
    for st in body:
        k = st[0]
        if k == "text":
            out.append(st[1])
        elif k == "out":
            out.append(f"{sx.vs} {pe_root(st[1])} {sx.ve}")
        elif k == "if":
            for i, (c, b) in enumerate(st[1]):
                out.append(B(("if " if i == 0 else "elif ") + pe_root(c, P_OR)))
                out.append(ps(b, sx))
            if st[2] is not None:
                out.append(B("else"))
                out.append(ps(st[2], sx))
            out.append(B("endif"))
        elif k == "for":
            h = "for " + ", ".join(st[1]) + " in " + pe(st[2], P_OR)
            if st[5] is not None:
                h += " if " + pe(st[5], P_OR)
            if st[6]:
                h += " recursive"
            out.append(B(h))
            out.append(ps(st[3], sx))
            if st[4] is not None:
                out.append(B("else"))
                out.append(ps(st[4], sx))
            out.append(B("endfor"))
        elif k == "set":
            out.append(B(f"set {st[1]} = {pe(st[2])}"))
        elif k == "setns":
            out.append(B(f"set {st[1]}.{st[2]} = {pe(st[3])}"))
        elif k == "setblock":
            out.append(B(f"set {st[1]}" + "".join(" | " + f for f in (st[3] if len(st) > 3 else []))))
            out.append(ps(st[2], sx))
            out.append(B("endset"))
        elif k == "with":
            out.append(B("with " + ", ".join(f"{n} = {pe(v)}" for n, v in st[1])))
            out.append(ps(st[2], sx))
            out.append(B("endwith"))
        elif k == "macro":
            out.append(B(f"macro {st[1]}({_sig(st[2])})"))
            out.append(ps(st[3], sx))
            out.append(B("endmacro"))
        elif k == "callblock":
            h = "call"
            if st[1]:
                h += "(" + _sig(st[1]) + ")"
            out.append(B(h + " " + pe(st[2])))
            out.append(ps(st[3], sx))
            out.append(B("endcall"))
        elif k == "filterblock":
            h = "filter " + st[1]
            if st[2]:
                h += "(" + _args(st[2], []) + ")"
            out.append(B(h))
            out.append(ps(st[3], sx))
            out.append(B("endfilter"))
        elif k == "break":
            out.append(B("break"))
        elif k == "continue":
            out.append(B("continue"))
        elif k == "block":
            h = "block " + st[1]
            if st[3]:
                h += " scoped"
            if st[4]:
                h += " required"
            out.append(B(h))
            out.append(ps(st[2], sx))
            out.append(B("endblock"))
        elif k == "extends":
            out.append(B("extends " + pe(st[1])))
        elif k == "include":
            h = "include " + pe(st[1])
            if st[3]:
                h += " ignore missing"
            if st[2] is True:
                h += " with context"
            elif st[2] is False:
                h += " without context"
            out.append(B(h))
        elif k == "import":
            h = f"import {pe(st[1])} as {st[2]}"
            if st[3] is True:
                h += " with context"
            elif st[3] is False:
                h += " without context"
            out.append(B(h))
        elif k == "from":
            names = ", ".join(n if a is None else f"{n} as {a}" for n, a in st[2])
            h = f"from {pe(st[1])} import {names}"
            if st[3] is True:
                h += " with context"
            elif st[3] is False:
                h += " without context"
            out.append(B(h))
        elif k == "autoescape":
            out.append(B("autoescape " + pe(st[1])))
            out.append(ps(st[2], sx))
            out.append(B("endautoescape"))
        elif k == "comment":
            out.append(f"{sx.cs}{st[1]}{sx.ce}")
        elif k == "raw":
            out.append(B("raw") + st[1] + B("endraw"))
        else:
            raise ValueError(f"unknown stmt {k}")
    return "".join(out)


def walk_expr(e, fn):
    """Pre-order visit of every expression node."""
    if e is None:
        return
    fn(e)
    k = e[0]
    if k in ("const", "name"):
        return
    if k == "un":
        walk_expr(e[2], fn)
    elif k == "bin":
        walk_expr(e[2], fn), walk_expr(e[3], fn)
    elif k == "cmp":
        walk_expr(e[1], fn)
        for _, r in e[2]:
            walk_expr(r, fn)
    elif k in ("and", "or"):
        walk_expr(e[1], fn), walk_expr(e[2], fn)
    elif k == "cond":
        walk_expr(e[1], fn), walk_expr(e[2], fn), walk_expr(e[3], fn)
    elif k == "attr":
        walk_expr(e[1], fn)
    elif k == "item":
        walk_expr(e[1], fn), walk_expr(e[2], fn)
    elif k == "slice":
        for x in e[1:5]:
            walk_expr(x, fn)
    elif k in ("list", "tuple"):
        for x in e[1]:
            walk_expr(x, fn)
    elif k == "dict":
        for a, b in e[1]:
            walk_expr(a, fn), walk_expr(b, fn)
    elif k == "call":
        walk_expr(e[1], fn)
        for x in e[2]:
            walk_expr(x, fn)
        for _, x in e[3]:
            walk_expr(x, fn)
    elif k == "filter":
        walk_expr(e[1], fn)
        for x in e[3]:
            walk_expr(x, fn)
        for _, x in e[4]:
            walk_expr(x, fn)
    elif k == "test":
        walk_expr(e[1], fn)
        for x in e[3]:
            walk_expr(x, fn)


def stmt_exprs(st):
    """Expressions directly owned by a statement (not by nested bodies)."""
    k = st[0]
    if k == "out":
        return [st[1]]
    if k == "if":
        return [c for c, _ in st[1]]
    if k == "for":
        return [st[2]] + ([st[5]] if st[5] is not None else [])
    if k == "set":
        return [st[2]]
    if k == "setns":
        return [st[3]]
    if k == "with":
        return [v for _, v in st[1]]
    if k == "macro":
        return [d for _, d in st[2] if d is not None]
    if k == "callblock":
        return [st[2]] + [d for _, d in st[1] if d is not None]
    if k == "filterblock":
        return list(st[2])
    if k in ("extends", "include", "import", "from", "autoescape"):
        return [st[1]]
    return []


def stmt_bodies(st):
    k = st[0]
    if k == "if":
        return [b for _, b in st[1]] + ([st[2]] if st[2] is not None else [])
    if k == "for":
        return [st[3]] + ([st[4]] if st[4] is not None else [])
    if k in ("setblock", "with", "block", "autoescape"):
        return [st[2]]
    if k in ("macro", "callblock", "filterblock"):
        return [st[3]]
    return []


def walk_stmts(body, fn):
    for st in body:
        fn(st)
        for b in stmt_bodies(st):
            walk_stmts(b, fn)
