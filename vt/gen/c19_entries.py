"""C19 workload tables: ENTRY POINTS - every documented way to run a template
on a caller-supplied mapping - x templates whose constructs make the engine
build derived contexts / write names.

The caller's mapping ITSELF (its top-level key set and every value) is compared
before/after, and so is a `locals` mapping the caller passes.

Entry points (docs/api.rst: Template.render / generate / stream / make_module /
module, "Low Level API": Template.new_context, Template.root_render_func,
Template.blocks; and their async counterparts):
  render(**kw), render(mapping), render(mapping, **kw), generate, stream
  (plain / buffered), make_module(vars [, shared] [, locals]),
  new_context(vars [, shared=True|False] [, locals]) + root_render_func,
  the same Context rendered twice, blocks[name](context) for every block,
  render_async / generate_async / make_module_async / async root_render_func /
  async blocks, sync render() on an async environment.
"""
from __future__ import annotations

import asyncio

#: auxiliary templates (added to the loader of every C19 environment)
AUX = {
    "vt_inc_item": "<{{ item }}{{ l|length }}>",
    "vt_inc_with": "{{ first }}/{{ n }}",
    "vt_inc_arg": "({{ arg }})",
    "vt_inc_cell": "[{{ cell }}{{ row|length }}]",
    "vt_inc_set": "{% set inner = 1 %}{{ inner }}{{ top }}",
    "vt_inc_nested": "{% for sub in l %}{% include 'vt_inc_item' %}{% endfor %}",
    "vt_lib": "{% macro show() %}{{ item }}|{{ l|length }}{% endmacro %}{% set libvar = 2 %}",
    "vt_parent": "<{% for item in l %}{% block cell scoped %}p{{ item }}{% endblock %}{% endfor %}>"
                 "{% block tail %}t{% endblock %}",
}

#: construct -> main template source.  Only names of the data, no globals (a
#: shared context has none).  `ctxfn` is a pass_context callable in the data.
TEMPLATES = {
    # ---- derived contexts with locals: include / import with context in a scope
    "include_in_for": "{% for item in l %}{% include 'vt_inc_item' %}{% endfor %}",
    "include_in_for_else": "{% for item in [] %}{% else %}{% include 'vt_inc_item' %}{% endfor %}",
    "include_in_for_filtered": "{% for item in l if item > 1 %}{% include 'vt_inc_item' %}{% endfor %}",
    "include_in_for_recursive": "{% for item in l recursive %}{% include 'vt_inc_item' %}{% endfor %}",
    "include_in_for_unpacking": "{% for item, v in d.items() %}{% include 'vt_inc_item' %}{% endfor %}",
    "include_in_nested_for": "{% for row in ll %}{% for cell in row %}{% include 'vt_inc_cell' %}"
                             "{% endfor %}{% endfor %}",
    "include_in_with": "{% with first = l[0], n = d|length %}{% include 'vt_inc_with' %}{% endwith %}",
    "include_in_macro": "{% macro m(arg) %}{% include 'vt_inc_arg' %}{% endmacro %}{{ m(l[0]) }}",
    "include_in_call_block": "{% macro m() %}{{ caller(l[0]) }}{% endmacro %}"
                             "{% call(arg) m() %}{% include 'vt_inc_arg' %}{% endcall %}",
    "include_in_filter_block": "{% for item in l %}{% filter upper %}{% include 'vt_inc_item' %}"
                               "{% endfilter %}{% endfor %}",
    "include_in_set_block": "{% for item in l %}{% set buf %}{% include 'vt_inc_item' %}{% endset %}"
                            "{{ buf }}{% endfor %}",
    "include_in_if_in_for": "{% for item in l %}{% if item %}{% include 'vt_inc_item' %}{% endif %}"
                            "{% endfor %}",
    "include_list_in_for": "{% for item in l %}{% include ['vt_missing', 'vt_inc_item'] %}{% endfor %}",
    "include_ignore_missing_in_for": "{% for item in l %}{% include 'vt_missing' ignore missing %}"
                                     "{% include 'vt_inc_item' ignore missing %}{% endfor %}",
    "include_nested_includes": "{% for item in l %}{% include 'vt_inc_nested' %}{% endfor %}",
    "include_after_loop_set": "{% for item in l %}{% set cur = item %}{% include 'vt_inc_item' %}"
                              "{% endfor %}",
    "import_with_context_in_for": "{% for item in l %}{% import 'vt_lib' as lib with context %}"
                                  "{{ lib.show() }}{% endfor %}",
    "from_import_with_context_in_with": "{% with item = l[0] %}{% from 'vt_lib' import show with context %}"
                                        "{{ show() }}{% endwith %}",
    "from_import_with_context_in_macro": "{% macro m(item) %}{% from 'vt_lib' import show with context %}"
                                         "{{ show() }}{% endmacro %}{{ m(7) }}",
    # ---- scoped blocks
    "scoped_block_in_for": "{% for item in l %}{% block cell scoped %}[{{ item }}{{ loop.index }}]"
                           "{% endblock %}{% endfor %}",
    "scoped_block_in_with": "{% with first = l[0] %}{% block cell scoped %}{{ first }}{% endblock %}"
                            "{% endwith %}",
    "scoped_block_in_nested_for": "{% for row in ll %}{% for cell in row %}{% block c scoped %}"
                                  "{{ cell }}{{ row|length }}{% endblock %}{% endfor %}{% endfor %}",
    "extends_child_overrides_scoped_block": "{% extends 'vt_parent' %}{% block cell %}c{{ item }}{{ super() }}"
                                   "{% endblock %}",
    "extends_parent_scoped_block": "{% extends 'vt_parent' %}{% block tail %}{{ l|length }}{% endblock %}",
    "self_block_call_in_for": "{% block cell %}{{ l|length }}{% endblock %}{% for item in l %}"
                              "{{ self.cell() }}{% endfor %}",
    # ---- pass_context callables in a scope
    "ctxfn_in_for_after_set": "{% for item in l %}{% set cur = item %}{{ ctxfn() }}{% endfor %}",
    "ctxfn_in_for": "{% for cur in l %}{{ ctxfn() }}{% endfor %}",
    "ctxfn_in_with": "{% with cur = l[0] %}{{ ctxfn() }}{% endwith %}",
    "ctxfn_in_macro": "{% macro m(cur) %}{{ ctxfn() }}{% endmacro %}{{ m(3) }}",
    "ctxfn_as_filter_arg_in_for": "{% for cur in l %}{{ none|default(ctxfn()) }}{% endfor %}",
    "ctxfn_in_call_block": "{% macro m() %}{{ caller(2) }}{% endmacro %}{% call(cur) m() %}{{ ctxfn() }}"
                           "{% endcall %}",
    # ---- names bound at top level (exported variables) that collide with / add to the data
    "top_set_new_name": "{% set top = 1 %}{{ top }}{% include 'vt_inc_set' %}",
    "top_set_existing_name": "{% set l = 0 %}{{ l }}",
    "top_set_block_existing_name": "{% set d %}x{% endset %}{{ d }}",
    "top_for_target_existing_name": "{% for l in ll %}{{ l|length }}{% endfor %}{{ l|length }}",
    "top_macro_existing_name": "{% macro s() %}m{% endmacro %}{{ s() }}",
    "top_import_as_existing_name": "{% import 'vt_lib' as q %}{{ q.libvar }}",
    "top_from_import_existing_name": "{% from 'vt_lib' import libvar as d %}{{ d }}",
    "top_set_then_include_in_for": "{% set top = 5 %}{% for item in l %}{% include 'vt_inc_item' %}"
                                   "{% endfor %}",
    "with_existing_name": "{% with s = 1 %}{{ s }}{% include 'vt_inc_item' %}{% endwith %}{{ s|length }}",
    # ---- read-only control
    "read_only": "{{ l|join(',') }}{{ d.a }}{{ s|length }}{{ q|first }}",
}
def family(construct):
    """the kind of construct (mechanism keys name entry point x family)"""
    for prefix, fam in (("include", "include-in-scope"), ("import", "import-with-context-in-scope"),
                        ("from_import", "import-with-context-in-scope"),
                        ("scoped_block", "scoped-block"), ("extends", "scoped-block"),
                        ("self_block", "block-call"), ("ctxfn", "pass_context-call-in-scope"),
                        ("top_", "top-level-binding"), ("with_", "with-binding")):
        if construct.startswith(prefix):
            return fam
    return "read-only"


SCOPE_CONSTRUCTS = [k for k in TEMPLATES if not k.startswith(("top_", "read_only", "with_existing"))]


def _arun(coro):
    loop = asyncio.new_event_loop()
    try:
        return loop.run_until_complete(coro)
    finally:
        loop.close()


async def _collect(agen):
    return "".join([x async for x in agen])


def _root(t, ctx, is_async):
    if is_async:
        return _arun(_collect(t.root_render_func(ctx)))
    return "".join(t.root_render_func(ctx))


def _blocks(t, data, is_async, shared):
    out = []
    for name in sorted(t.blocks):
        ctx = t.new_context(data, shared=shared)
        if is_async:
            out.append(_arun(_collect(t.blocks[name](ctx))))
        else:
            out.append("".join(t.blocks[name](ctx)))
    return "|".join(out)


def _twice(t, data, is_async):
    ctx = t.new_context(data, shared=True)
    return _root(t, ctx, is_async) + _root(t, ctx, is_async)


def _buffered(t, data):
    s = t.stream(data)
    s.enable_buffering(2)
    return "".join(s)


async def _agenerate(t, data):
    return "".join([x async for x in t.generate_async(data)])


async def _amodule(t, data, *a, **k):
    return str(await t.make_module_async(data, *a, **k))


#: entry -> (mode, function(template, data, locals) -> output); mode: "sync" = only
#: on a sync environment, "async" = only on an async one, "both"
ENTRIES = {
    "render(**kw)": ("both", lambda t, D, L, A: t.render(**D)),
    "render(mapping)": ("both", lambda t, D, L, A: t.render(D)),
    "render(mapping, **kw)": ("both", lambda t, D, L, A: t.render(D, extra_kw=1)),
    "generate(mapping)": ("both", lambda t, D, L, A: "".join(t.generate(D))),
    "stream(mapping)": ("both", lambda t, D, L, A: "".join(t.stream(D))),
    "stream(mapping).enable_buffering": ("both", lambda t, D, L, A: _buffered(t, D)),
    "make_module(vars)": ("sync", lambda t, D, L, A: str(t.make_module(D))),
    "make_module(vars, shared=True)": ("sync", lambda t, D, L, A: str(t.make_module(D, True))),
    "make_module(vars, shared=True, locals)": ("sync", lambda t, D, L, A: str(t.make_module(D, True, L))),
    "make_module(vars, locals)": ("sync", lambda t, D, L, A: str(t.make_module(D, locals=L))),
    "new_context(vars)+root_render_func": ("both", lambda t, D, L, A: _root(t, t.new_context(D), A)),
    "new_context(vars, shared=True)+root_render_func":
        ("both", lambda t, D, L, A: _root(t, t.new_context(D, shared=True), A)),
    "new_context(vars, shared=True, locals)+root_render_func":
        ("both", lambda t, D, L, A: _root(t, t.new_context(D, shared=True, locals=L), A)),
    "new_context(vars, locals)+root_render_func":
        ("both", lambda t, D, L, A: _root(t, t.new_context(D, locals=L), A)),
    "new_context(vars, shared=True) rendered twice": ("both", lambda t, D, L, A: _twice(t, D, A)),
    "blocks[name](new_context(vars, shared=True))": ("both", lambda t, D, L, A: _blocks(t, D, A, True)),
    "blocks[name](new_context(vars))": ("both", lambda t, D, L, A: _blocks(t, D, A, False)),
    "render_async(mapping)": ("async", lambda t, D, L, A: _arun(t.render_async(D))),
    "render_async(**kw)": ("async", lambda t, D, L, A: _arun(t.render_async(**D))),
    "generate_async(mapping)": ("async", lambda t, D, L, A: _arun(_agenerate(t, D))),
    "make_module_async(vars)": ("async", lambda t, D, L, A: _arun(_amodule(t, D))),
    "make_module_async(vars, shared=True)": ("async", lambda t, D, L, A: _arun(_amodule(t, D, True))),
    "make_module_async(vars, shared=True, locals)":
        ("async", lambda t, D, L, A: _arun(_amodule(t, D, True, L))),
}
#: entries that hand the caller's mapping to the context as it is
SHARED_ENTRIES = [e for e in ENTRIES if "shared=True" in e]
LOCALS_ENTRIES = [e for e in ENTRIES if "locals" in e]


def make_locals():
    """a `locals` mapping as the caller may pass it (documented parameter of
    new_context / make_module): a new name, a name of the data, nested data"""
    return {"lx": 1, "item": 0, "lcont": [1, {"a": 2}]}


def applicable(entry, is_async):
    mode = ENTRIES[entry][0]
    return mode == "both" or (mode == "async") == is_async
