"""Re-nesting of template reference statements (C32).

Takes a generated case (vt.gen.corpus) and moves the statements that reference other
templates (extends / include / import / from-import, and whatever follows them up to
the next reference: the uses of the imported names) below every statement-holding
position the template language has: each arm of an if (if / elif #1..#3 / else), the
body and the else of a for loop, call blocks, filter blocks, set blocks and autoescape
blocks - one or two levels deep.  Data variables added to the case select the arm that
holds the reference (mostly) or another one.  Every arm that holds a reference starts
with `{{ vt_mark('<position>') }}` so that the harness can count the positions that
were really executed (vt_mark is a global the check installs).

Nothing here knows how references are found; the transformation is purely syntactic.
"""
from __future__ import annotations

import copy

from vt.gen import jast

REF = ("extends", "include", "import", "from")
KINDS = ("if.if", "if.elif", "if.elif", "if.elif", "if.else", "for.body", "for.else", "call", "filter",
         "setblock", "autoescape")
LABELS = ("if.if", "if.elif", "if.else", "for.body", "for.else", "call", "filter", "setblock", "autoescape",
          "if.elif(shifted)")

C = lambda v: ["const", v]
N = lambda n: ["name", n]
T = lambda s: ["text", s]


def contains_ref(st):
    if st[0] in REF:
        return True
    return any(contains_ref(s) for b in jast.stmt_bodies(st) for s in b)


def contains_kind(st, kind):
    if st[0] == kind:
        return True
    return any(contains_kind(s, kind) for b in jast.stmt_bodies(st) for s in b)


def mark(label):
    return ["out", ["call", N("vt_mark"), [C(label)], []]]


class Nester:
    def __init__(self, rng, data):
        self.r = rng
        self.data = data
        self.n = 0
        self.labels = []

    def fresh(self, stem):
        self.n += 1
        return f"{stem}{self.n}"

    def wrap(self, chunk, kind):
        """chunk (list of statements) placed at position `kind`; returns a list of statements."""
        r = self.r
        label = kind
        body = [mark(label)] + chunk
        self.labels.append(label)
        if kind.startswith("if."):
            n_elif = r.randint(1, 3)
            arms = 1 + n_elif + 1                      # if, elifs, else
            at = {"if.if": 0, "if.elif": r.randint(1, n_elif), "if.else": arms - 1}[kind]
            sel = self.fresh("nsel")
            self.data[sel] = at if r.random() < 0.85 else r.randrange(arms)
            fill = lambda j: [T(f"[{sel}.{j}]")]
            conds = [[["cmp", N(sel), [["==", C(j)]]], (body if j == at else fill(j))] for j in range(arms - 1)]
            return [["if", conds, body if at == arms - 1 else fill(arms - 1)]]
        if kind in ("for.body", "for.else"):
            seq = self.fresh("nseq")
            want_body = (kind == "for.body") == (r.random() < 0.85)
            self.data[seq] = [1] if want_body else []
            if kind == "for.body":
                return [["for", [self.fresh("nv")], N(seq), body, [T(f"[{seq}.else]")], None, False]]
            return [["for", [self.fresh("nv")], N(seq), [T(f"[{seq}.body]")], body, None, False]]
        if kind == "call":
            m = self.fresh("ncaller")
            return [["macro", m, [], [T("("), ["out", ["call", N("caller"), [], []]], T(")")]],
                    ["callblock", [], ["call", N(m), [], []], body]]
        if kind == "filter":
            return [["filterblock", "upper", [], body]]
        if kind == "setblock":
            v = self.fresh("nset")
            return [["setblock", v, body], ["out", N(v)]]
        if kind == "autoescape":
            return [["autoescape", C(r.random() < 0.5), body]]
        raise ValueError(kind)

    def renest(self, body):
        """Top-level statements split at every statement that holds a reference; each such chunk wrapped."""
        r = self.r
        chunks, cur = [], []
        for st in body:
            if contains_ref(st) and cur:
                chunks.append(cur)
                cur = []
            cur.append(st)
        if cur:
            chunks.append(cur)
        out = []
        for ch in chunks:
            if not any(contains_ref(s) for s in ch) or r.random() < 0.15:
                out.extend(ch)
                continue
            kinds = KINDS
            if any(contains_kind(s, "block") or contains_kind(s, "extends") for s in ch):
                kinds = tuple(k for k in KINDS if k.startswith(("if.", "for.")))
            k1 = kinds[r.randrange(len(kinds))]
            w = self.wrap(ch, k1)
            if r.random() < 0.4:
                k2 = kinds[r.randrange(len(kinds))]
                w = self.wrap(w, k2)
                self.labels.append("depth2")
            out.extend(w)
        return out

    def shift_ifs(self, body):
        """Existing if statements with a reference below them get a leading arm that is never taken:
        all their arms move one position (if -> elif)."""
        for st in body:
            for b in jast.stmt_bodies(st):
                self.shift_ifs(b)
            if st[0] == "if" and contains_ref(st) and self.r.random() < 0.7:
                self.data.setdefault("nzero", 0)
                for arm in st[1]:
                    if any(contains_ref(s) for s in arm[1]):
                        arm[1].insert(0, mark("if.elif(shifted)"))
                        self.labels.append("if.elif(shifted)")
                st[1].insert(0, [["cmp", N("nzero"), [["==", C(1)]]], [T("")]])


def nest_case(case, rng):
    """A new case (same kind) with its references re-nested; None when it has none to move.
    Returns (case, labels)."""
    new = copy.deepcopy(case)
    nst = Nester(rng, new["data"])
    for name in sorted(new["asts"]):
        nst.shift_ifs(new["asts"][name])
    if case["kind"] == "incimp":
        new["asts"]["main"] = nst.renest(new["asts"]["main"])
    if not nst.labels:
        return None, []
    return new, nst.labels
