"""C01 workload: environment configurations, a grammar-based generator of
(mostly) valid templates, token-level mutators and the bounded-exhaustive
alphabet of delimiter fragments.

Everything is driven by an explicit ``random.Random`` and JSON-able config
dicts, so a recorded (config name, source) pair replays in a fresh process.
The generator is written from docs/templates.rst / docs/extensions.rst; it
does not import jinja2's parser or lexer (mutators receive an environment and
use the public ``env.lex``).
"""
from __future__ import annotations

import re

ALL_EXT = ["jinja2.ext.i18n", "jinja2.ext.do", "jinja2.ext.loopcontrols", "jinja2.ext.debug"]

# name -> (class, kwargs, feature flags)
CONFIGS = {
    "default": {"cls": "Environment", "kw": {}},
    "ext": {"cls": "Environment", "kw": {"extensions": ALL_EXT}},
    "php": {"cls": "Environment", "kw": {
        "block_start_string": "<%", "block_end_string": "%>",
        "variable_start_string": "${", "variable_end_string": "}",
        "comment_start_string": "<!--", "comment_end_string": "-->",
        "extensions": ALL_EXT}},
    "asp": {"cls": "Environment", "kw": {
        "block_start_string": "<%", "block_end_string": "%>",
        "variable_start_string": "<%=", "variable_end_string": "%>",
        "comment_start_string": "<%#", "comment_end_string": "%>"}},
    "line#": {"cls": "Environment", "kw": {
        "line_statement_prefix": "#", "line_comment_prefix": "##",
        "extensions": ALL_EXT}},
    "line%": {"cls": "Environment", "kw": {
        "line_statement_prefix": "%", "line_comment_prefix": "##",
        "trim_blocks": True}},
    "trim": {"cls": "Environment", "kw": {
        "trim_blocks": True, "lstrip_blocks": True, "keep_trailing_newline": True,
        "extensions": ALL_EXT}},
    "async": {"cls": "Environment", "kw": {"enable_async": True, "extensions": ALL_EXT}},
    "sandbox": {"cls": "SandboxedEnvironment", "kw": {"extensions": ALL_EXT[1:]}},
}
CONFIG_NAMES = list(CONFIGS)


def make_env(name):
    import jinja2
    import jinja2.sandbox

    c = CONFIGS[name]
    cls = jinja2.sandbox.SandboxedEnvironment if c["cls"] == "SandboxedEnvironment" \
        else jinja2.Environment
    return cls(cache_size=0, **c["kw"])


class Delims:
    def __init__(self, name):
        kw = CONFIGS[name]["kw"]
        self.bs = kw.get("block_start_string", "{%")
        self.be = kw.get("block_end_string", "%}")
        self.vs = kw.get("variable_start_string", "{{")
        self.ve = kw.get("variable_end_string", "}}")
        self.cs = kw.get("comment_start_string", "{#")
        self.ce = kw.get("comment_end_string", "#}")
        self.ls = kw.get("line_statement_prefix")
        self.lc = kw.get("line_comment_prefix")
        exts = kw.get("extensions", [])
        self.i18n = "jinja2.ext.i18n" in exts
        self.do = "jinja2.ext.do" in exts
        self.loopctl = "jinja2.ext.loopcontrols" in exts
        self.debug = "jinja2.ext.debug" in exts


ASCII_NAMES = ["x", "y", "z", "item", "ns", "foo", "_a", "user", "seq", "n1"]
UNI_NAMES = ["été", "名", "ª", "ǅx", "x́", "K", "naïve"]
FILTERS = ["upper", "lower", "length", "default('d')", "join(', ')", "e", "safe", "first",
           "trim", "replace('a', 'b')", "int", "list", "d(x, true)", "batch(2)|list",
           "map(attribute='a')|list", "select('odd')|list", "truncate(5, end='')", "tojson"]
TESTS = ["defined", "none", "odd", "divisibleby(3)", "divisibleby 3", "string", "in y",
         "sameas(x)", "not defined", "eq 1", "mapping"]
ARG_FILTERS = ["default", "join", "replace", "round", "truncate", "indent", "batch", "center", "sum", "attr"]
ARG_TESTS = ["divisibleby", "sameas", "eq", "in", "gt"]
# constant operands of * and ** (sequences of non-pairs, non-iterables, mappings with odd keys)
STAR_CONSTS = ["'ab'", "[1, 2]", "(1,)", "5", "none", "{'a': 1}", "''", "[[]]", "1.5"]
DSTAR_CONSTS = ["'ab'", "['abc']", "{'a': 1}", "{1: 2}", "5", "none", "[('a', 1)]", "[(1, 2, 3)]", "{}", "[1]", "true"]
INTS = ["0", "1", "42", "0x1F", "0b101", "0o17", "1_000", "00", "0_0", "7"]
FLOATS = ["1.5", "1e3", "2.5e-3", "1_0.0_1", "1E+2", "0.0", "1e400", "3.14"]
STRS = ["'a'", '"b"', "'it\\'s'", "'\\n'", "'é'", "'{{'", "'%}'", "''", '"#}"',
        "'a' 'b'", "'\\u00e9'", "'\\x41'", "'a\nb'", "'tpl.html'", "'%(x)s'"]
DATA = ["a", " ", "\n", "text", "<b>", "}", "{", "%", "#", "\r\n", "\r", "é", "\t",
        "  ", "\n\n", "x y", "</b>", "&", "'", '"', "-", "100%", "{ {", "% }", "\\", "raw"]


class TemplateGen:
    """Grammar-based generator.  ``template()`` returns source text in the
    delimiters of the chosen configuration."""

    def __init__(self, rng, delims, maxdepth=4, unicode_names=True, ws_ctrl=True):
        self.r = rng
        self.d = delims
        self.maxdepth = maxdepth
        self.uni = unicode_names
        self.ws = ws_ctrl
        self.nblock = 0
        self.used = set()  # construct names used (for distinct keys)

    # ------------------------------------------------------------ lexical
    def name(self):
        if self.uni and self.r.random() < 0.12:
            return self.r.choice(UNI_NAMES)
        return self.r.choice(ASCII_NAMES)

    def sp(self):
        x = self.r.random()
        if x < 0.8:
            return " "
        if x < 0.88:
            return ""
        if x < 0.94:
            return "  "
        return self.r.choice(["\n", "\t", " \n "])

    def lit(self, d=0):
        r = self.r
        k = r.randrange(8)
        if k == 0:
            return r.choice(INTS)
        if k == 1:
            return r.choice(FLOATS)
        if k in (2, 3):
            return r.choice(STRS)
        if k == 4:
            return r.choice(["true", "false", "none", "True", "False", "None"])
        if d >= self.maxdepth:
            return r.choice(INTS)
        if k == 5:
            n = r.randrange(4)
            return "[" + ", ".join(self.expr(d + 1) for _ in range(n)) + \
                (", " if n and r.random() < 0.2 else "") + "]"
        if k == 6:
            n = r.randrange(3)
            return "{" + ", ".join(self.expr(d + 1, simple=True) + ": " + self.expr(d + 1)
                                   for _ in range(n)) + "}"
        n = r.randrange(4)
        if n == 0:
            return "()"
        if n == 1:
            return "(" + self.expr(d + 1) + ",)"
        return "(" + ", ".join(self.expr(d + 1) for _ in range(n)) + ")"

    def args(self, d):
        r = self.r
        parts = [self.expr(d + 1) for _ in range(r.randrange(3))]
        kws = []
        for _ in range(r.randrange(3)):
            n = self.name()
            if n not in kws:
                kws.append(n)
        parts += [f"{n}={self.expr(d + 1)}" for n in kws]
        if r.random() < 0.12:
            parts.append("*" + (self.name() if r.random() < 0.5 else r.choice(STAR_CONSTS)))
        if r.random() < 0.12:
            parts.append("**" + (self.name() if r.random() < 0.5 else r.choice(DSTAR_CONSTS)))
        return "(" + ", ".join(parts) + (", " if parts and r.random() < 0.1 else "") + ")"

    def expr(self, d=0, simple=False):
        r = self.r
        if d >= self.maxdepth or simple:
            return self.name() if r.random() < 0.6 else r.choice(INTS + STRS[:4])
        k = r.randrange(22)
        e = lambda: self.expr(d + 1)  # noqa: E731
        if k <= 2:
            return self.name()
        if k <= 4:
            return self.lit(d)
        if k == 5:
            self.used.add("unary")
            return r.choice(["-", "+", "not "]) + e()
        if k == 6:
            self.used.add("arith")
            return e() + " " + r.choice(["+", "-", "*", "/", "//", "%", "**"]) + " " + e()
        if k == 7:
            self.used.add("cmp")
            return e() + " " + r.choice(["==", "!=", "<", "<=", ">", ">=", "in", "not in"]) + " " + e()
        if k == 8:
            self.used.add("logic")
            return e() + " " + r.choice(["and", "or"]) + " " + e()
        if k == 9:
            self.used.add("cond")
            return e() + " if " + e() + (" else " + e() if r.random() < 0.7 else "")
        if k == 10:
            self.used.add("concat")
            return e() + " ~ " + e()
        if k == 11:
            self.used.add("getattr")
            return self.name() + "." + r.choice([self.name(), "0", "items", "a.b"])
        if k == 12:
            self.used.add("getitem")
            return self.name() + "[" + e() + "]"
        if k == 13:
            self.used.add("slice")
            a, b, c = (e() if r.random() < 0.5 else "" for _ in range(3))
            return self.name() + "[" + a + ":" + b + (":" + c if r.random() < 0.5 else "") + "]"
        if k == 14:
            self.used.add("call")
            return self.name() + self.args(d)
        if k in (15, 16):
            self.used.add("filter")
            if r.random() < 0.15:
                # a filter called with generated arguments (incl. constant * / ** operands)
                self.used.add("filter_genargs")
                return self.expr(d + 1, simple=True) + "|" + r.choice(ARG_FILTERS) + self.args(d + 1)
            return self.expr(d + 1, simple=r.random() < 0.5) + "|" + r.choice(FILTERS)
        if k == 17:
            self.used.add("test")
            if r.random() < 0.15:
                self.used.add("test_genargs")
                return self.name() + " is " + r.choice(ARG_TESTS) + self.args(d + 1)
            return self.name() + " is " + r.choice(TESTS)
        if k == 18:
            self.used.add("paren")
            return "(" + e() + ")"
        if k == 19:
            self.used.add("methodcall")
            return self.name() + "." + self.name() + self.args(d)
        if k == 20:
            self.used.add("special")
            return r.choice(["loop.index", "loop.cycle('a', 'b')", "super()", "caller()",
                             "self.blk()", "varargs", "kwargs", "range(3)", "namespace(a=1)",
                             "lipsum(1)", "dict(a=1)", "cycler(1, 2).next()", "joiner()",
                             "_('msg')", "gettext('m %(x)s', x=1)", "loop.changed(x)"])
        return self.lit(d)

    # ---------------------------------------------------------- structure
    def tag(self, content, linestmt_ok=True):
        d, r = self.d, self.r
        if d.ls and linestmt_ok and "\n" not in content and r.random() < 0.5:
            self.used.add("linestmt")
            return "\n" + r.choice(["", " ", "\t"]) + d.ls + " " + content + \
                (":" if r.random() < 0.1 and content.split()[0] in ("for", "if", "elif", "else")
                 else "") + "\n"
        l = r.choice(["-", "+"]) if self.ws and r.random() < 0.15 else ""
        t = r.choice(["-", "+"]) if self.ws and r.random() < 0.15 else ""
        if l or t:
            self.used.add("wsctrl")
        return d.bs + l + self.sp() + content + self.sp() + t + d.be

    def var(self, d=0):
        dl, r = self.d, self.r
        l = "-" if self.ws and r.random() < 0.1 else ""
        t = "-" if self.ws and r.random() < 0.1 else ""
        inner = self.expr(d)
        if r.random() < 0.08:
            inner += ", " + self.expr(d + 1)
        if dl.ve.startswith("}") and inner.rstrip().endswith("}"):
            inner += " "
        return dl.vs + l + " " + inner + " " + t + dl.ve

    def comment(self):
        dl, r = self.d, self.r
        if dl.lc and r.random() < 0.5:
            self.used.add("linecomment")
            return " " + dl.lc + " " + r.choice(["note", "", "{% if %}", "x ## y"]) + "\n"
        self.used.add("comment")
        return dl.cs + r.choice(["", "-", "+"]) + r.choice(
            [" c ", "", "\n multi\n line \n", " {% if x %} ", " {{ ", "'"]) + \
            r.choice(["", "-"]) + dl.ce

    def raw(self):
        self.used.add("raw")
        r = self.r
        inner = r.choice(["", "{{ x }}", "{% if %}", "{# #}", "a\nb", "{% raw", "endraw", "{{"])
        return self.tag("raw", False) + inner + self.tag("endraw", False)

    def data(self):
        r = self.r
        return "".join(r.choice(DATA) for _ in range(r.randint(1, 3)))

    def target(self):
        r = self.r
        if r.random() < 0.75:
            return self.name()
        a, b, c = self.name(), self.name(), self.name()
        return r.choice([f"{a}, {b}", f"({a}, {b})", f"{a}, ({b}, {c})"])

    def body(self, d, inloop=False, n=None):
        r = self.r
        out = []
        for _ in range(n if n is not None else r.randint(0, 3)):
            k = r.random()
            if k < 0.3:
                out.append(self.data())
            elif k < 0.55:
                out.append(self.var(d))
            elif k < 0.62:
                out.append(self.comment())
            elif k < 0.66:
                out.append(self.raw())
            elif d < self.maxdepth:
                out.append(self.stmt(d + 1, inloop))
            else:
                out.append(self.data())
        return "".join(out)

    def stmt(self, d, inloop=False):
        r, dl = self.r, self.d
        kinds = ["if", "for", "set", "setblock", "with", "macro", "call", "filter", "block",
                 "include", "import", "from", "autoescape", "print", "nsset"]
        if dl.i18n:
            kinds += ["trans", "trans"]
        if dl.do:
            kinds.append("do")
        if dl.debug:
            kinds.append("debug")
        if dl.loopctl and inloop:
            kinds += ["break", "continue"]
        k = r.choice(kinds)
        self.used.add(k)
        T = self.tag
        B = lambda il=inloop: self.body(d, il)  # noqa: E731
        if k == "if":
            s = T("if " + self.expr(d)) + B()
            for _ in range(r.randrange(3) if r.random() < 0.4 else 0):
                s += T("elif " + self.expr(d)) + B()
            if r.random() < 0.4:
                s += T("else") + B()
            return s + T("endif")
        if k == "for":
            head = "for " + self.target() + " in " + self.expr(d, simple=r.random() < 0.5)
            if r.random() < 0.2:
                head += " if " + self.expr(d + 1)
            if r.random() < 0.15:
                head += " recursive"
            s = T(head) + B(True)
            if r.random() < 0.3:
                s += T("else") + B()
            return s + T("endfor")
        if k == "set":
            return T("set " + self.target() + " = " + self.expr(d))
        if k == "nsset":
            return T("set ns." + self.name() + " = " + self.expr(d))
        if k == "setblock":
            flt = "|" + r.choice(FILTERS) if r.random() < 0.3 else ""
            return T("set " + self.name() + flt) + B() + T("endset")
        if k == "with":
            n = r.randrange(3)
            names = []
            for _ in range(n):
                nm = self.name()
                if nm not in names:
                    names.append(nm)
            return T("with " + ", ".join(f"{nm} = {self.expr(d + 1)}" for nm in names)) + \
                B() + T("endwith")
        if k == "macro":
            return T("macro " + self.name() + self.params(d)) + B(False) + T("endmacro")
        if k == "call":
            sig = self.params(d) if r.random() < 0.3 else ""
            return T("call" + sig + " " + self.name() + self.args(d)) + B(False) + T("endcall")
        if k == "filter":
            return T("filter " + r.choice(FILTERS)) + B() + T("endfilter")
        if k == "block":
            self.nblock += 1
            nm = f"blk{self.nblock}"
            mod = r.choice(["", "", " scoped", " required", " scoped required"])
            if "required" in mod:
                inner = r.choice(["", " ", "\n", self.comment() if not dl.lc else " "])
            else:
                inner = B(False)
            return T("block " + nm + mod) + inner + T("endblock" + (" " + nm if r.random() < 0.3 else ""))
        if k == "include":
            tgt = r.choice(["'inc.html'", self.name(), "['a.html', 'b.html']"])
            return T("include " + tgt + r.choice(["", " ignore missing", " with context",
                                                  " without context",
                                                  " ignore missing without context"]))
        if k == "import":
            return T("import 'lib.html' as " + self.name() + r.choice(["", " with context"]))
        if k == "from":
            a, b = self.name().lstrip("_") or "q", self.name()
            return T("from 'lib.html' import " + a + r.choice(["", " as " + b, ", " + (b.lstrip("_") or "w")]) +
                     r.choice(["", " with context", " without context"]))
        if k == "autoescape":
            return T("autoescape " + r.choice(["true", "false", self.name()])) + B() + T("endautoescape")
        if k == "print":
            return T("print " + self.expr(d))
        if k == "do":
            return T("do " + self.expr(d))
        if k == "debug":
            return T("debug")
        if k in ("break", "continue"):
            return T(k)
        if k == "trans":
            return self.trans(d)
        raise AssertionError(k)

    def params(self, d):
        r = self.r
        names = []
        for _ in range(r.randrange(4)):
            nm = self.name()
            # the docs allow any identifier; duplicates are excluded here
            # (they are exercised separately by the mutators / ladder)
            import unicodedata
            key = unicodedata.normalize("NFKC", nm)
            if key not in [unicodedata.normalize("NFKC", x) for x in names]:
                names.append(nm)
        ndef = r.randint(0, len(names))
        parts = names[: len(names) - ndef] + [f"{nm}={self.expr(d + 1, simple=True)}"
                                             for nm in names[len(names) - ndef:]]
        return "(" + ", ".join(parts) + ")"

    def trans(self, d):
        r, dl = self.r, self.d
        head = "trans"
        if r.random() < 0.2:
            head += ' "ctx"'
        if r.random() < 0.3:
            head += " " + r.choice(["trimmed", "notrimmed"])
        names = []
        for _ in range(r.randrange(3)):
            nm = r.choice(ASCII_NAMES)
            if nm not in names:
                names.append(nm)
        binds = [nm if r.random() < 0.4 else f"{nm}={self.expr(d + 1)}" for nm in names]
        if binds:
            head += " " + ", ".join(binds)
        free = names + [r.choice(ASCII_NAMES)]

        def text():
            out = []
            for _ in range(r.randint(0, 4)):
                if r.random() < 0.4:
                    out.append(dl.vs + " " + r.choice(free) + " " + dl.ve)
                else:
                    out.append(r.choice(["Hello ", "100%", "%(x)s", "\n  line\n", "<b>", "{", "}"]))
            return "".join(out)

        if r.random() < 0.4:
            # pluralize needs a count: the first bound name, or a variable
            # used in the singular text
            if names:
                s = self.tag(head) + text()
                s += self.tag("pluralize" + (" " + names[0] if r.random() < 0.5 else "")) + text()
            else:
                cnt = dl.vs + " n1 " + dl.ve
                s = self.tag(head) + cnt + text() + self.tag("pluralize") + cnt + text()
        else:
            s = self.tag(head) + text()
        return s + self.tag("endtrans")

    def template(self):
        r = self.r
        s = ""
        if r.random() < 0.15:
            self.used.add("extends")
            s += self.tag("extends " + r.choice(["'base.html'", self.name()]))
        s += self.body(0, n=r.randint(1, 5))
        return s


# ---------------------------------------------------------------- ladders
def ladder_cases(dl):
    """Deterministic nesting-depth ladders (modest depths only) and a list of
    documented-looking corner forms.  Returns [(family, depth, source)]."""
    T = lambda c: dl.bs + " " + c + " " + dl.be  # noqa: E731
    V = lambda c: dl.vs + " " + c + " " + dl.ve  # noqa: E731
    out = []
    for n in (1, 2, 5, 10, 15, 19, 20, 21, 24):
        out.append(("nest:for", n, "".join(T(f"for a{i} in x") for i in range(n)) + "y" +
                    T("endfor") * n))
        out.append(("nest:if", n, "".join(T(f"if a{i}") for i in range(n)) + "y" + T("endif") * n))
        out.append(("nest:with", n, "".join(T(f"with a{i} = 1") for i in range(n)) + "y" +
                    T("endwith") * n))
        out.append(("nest:macro", n, "".join(T(f"macro m{i}()") for i in range(n)) + "y" +
                    T("endmacro") * n))
        out.append(("nest:filter", n, T("filter upper") * n + "y" + T("endfilter") * n))
        out.append(("nest:setblock", n, "".join(T(f"set a{i}") for i in range(n)) + "y" +
                    T("endset") * n))
        out.append(("nest:call", n, T("call f()") * n + "y" + T("endcall") * n))
        out.append(("nest:block", n, "".join(T(f"block b{i}") for i in range(n)) + "y" +
                    T("endblock") * n))
        out.append(("nest:autoescape", n, T("autoescape true") * n + "y" + T("endautoescape") * n))
        out.append(("nest:for-else-if", n,
                    "".join(T(f"for a{i} in x") + T(f"if a{i}") for i in range(n)) + "y" +
                    (T("endif") + T("else") + "z" + T("endfor")) * n))
    for n in (1, 5, 10, 20, 30, 40):
        out.append(("nest:paren", n, V("(" * n + "1" + ")" * n)))
        out.append(("nest:list", n, V("[" * n + "1" + "]" * n)))
        out.append(("nest:dict", n, V("{1: " * n + "1" + "}" * n + " ")))
        out.append(("nest:call-expr", n, V("f(" * n + "1" + ")" * n)))
        out.append(("nest:getitem", n, V("x" + "[0]" * n)))
        out.append(("nest:getattr", n, V("x" + ".a" * n)))
        out.append(("nest:filterchain", n, V("x" + "|upper" * n)))
        out.append(("nest:not", n, V("not " * n + "x")))
        out.append(("nest:neg", n, V("- " * n + "x")))
        out.append(("nest:cond", n, V("1 if x else " * n + "0")))
        out.append(("nest:binop", n, V(" + ".join(["x"] * (n + 1)))))
        out.append(("nest:pow", n, V(" ** ".join(["x"] * (n + 1)))))
        out.append(("nest:concat", n, V(" ~ ".join(["x"] * (n + 1)))))
        out.append(("nest:compare", n, V(" < ".join(["x"] * (n + 1)))))
        out.append(("nest:and", n, V(" and ".join(["x"] * (n + 1)))))
    return out


# documented-looking constructs in unusual but plausible forms; each is a
# complete tag/expression body in default delimiters (translated per config)
CORNER_EXPRS = [
    "f(a=1, a=2)", "x|f(a=1, a=2)", "x is t(a=1, a=2)", "f(__debug__=1)", "f(class=1)",
    "f(\ufb01=1, fi=2)", "f(\u00b5=1, \u03bc=2)", "10**5000", "x[10**5000]", "2**20000 + x", "(10**5000)|string", "-(10**5000)",
    "f(None=1)", "f(true=1)", "f(if=1)", "f(match=1)", "f(**a, **b)", "f(*a, *b)", "f(*a, b=1)",
    "f(**a, b=1)", "f(a=1, b)", "x[:, :]", "x[1:2, 3]", "x[::]", "x[1,]", "x[]", "x[1:2:3:4]",
    "x.1", "x.1.2", "x.1e5", "x.0x1", "x.class", "x.__debug__", "__debug__", "None.x", "true.x",
    "1.x", "1 .x", "'a''b'", "'a' 'b'.x", "1e400", "-1e400", "0x", "1__0", "1.e5", "1_", "0b2",
    "09", "1e", "1.5.5", "0_0", "00_1", "1_000.000_1e1_0", ".5", "5.", "0xg", "0o8", "0B1", "0XfF",
    # numbers written with non-ASCII decimal digits (U+0660.., U+1D7CE..)
    "1.\u0660", "\u0660.5", "1e\u0660", "2.5e\u06603", "1\u0660", "0x\u0660", "\U0001d7ce.5", "\u0661\u0662",
    "1_\u0660", "0b\u0661", "\uff11.\uff12",
    "'\\x'", "'\\N{foo}'", "'\\ud800'", "'\\U00110000'", "'\\777'", "'\\'", "\"\\\"",
    "℘", "᧚", "x·", "·x", "²", "x²", "٠", "a٠", "①",
    "\ud800", "'\ud800'", "x\x00", "\x00", "'\x00'", "x\x0c", "x\x85y", "x y", "﻿x",
    "{1:2", "{1:2}", "{1}", "{1:}", "{:}", "{**x}", "[*x]", "(,)", "()", "(1,)", ",", "1,", "",
    "not", "-", "a ~", "a **", "a if b else", "a.", "a.b.", "a|", "a|b.", "a|b.c", "a is b.c",
    "x is", "x is not", "x is is", "x is a b", "x is a is b", "x is not not y", "not not x",
    "x not in not y", "x if", "*x", "x y", "x = 1", "x == = 1", "x ! y", "x <> y", "x >> y",
    "x << y", "x & y", "x ^ y", "x @ y", "x := 1", "lambda: 1", "x; y", "`x`", "$x", "x?", "\\",
    "loop", "self", "super", "caller", "varargs", "context", "environment", "resolve", "missing",
    "t_1", "l_0_x", "undefined", "Markup", "str", "concat", "escape", "markup_join", "cond_expr_undefined",
    "True = 1", "x(y)(z)", "x|f|g(1)|h", "(x)|f", "-x|abs", "x ** -1", "x ** y ** z", "- -x", "+-+x",
    "not x is y", "x is y and z", "x is divisibleby 3 + 1", "x is sameas none", "x is in y",
    "x in y in z", "x < y < z", "a if b", "a if b else c if d else e", "(a if b) if c else d",
]
# every kind of call (function, method, filter, test) with a CONSTANT operand of * / **:
# the optimizer tries to unpack such operands while the template is being compiled
CORNER_EXPRS += [f"{callee}({pre}{star}{c})"
                 for callee, pres in (("f", ("",)), ("x.m", ("",)), ("x|default", ("", "1, ")),
                                      ("x is divisibleby", ("",)), ("1 is divisibleby", ("",)))
                 for star in ("*", "**")
                 for c in sorted(set(STAR_CONSTS + DSTAR_CONSTS))
                 for pre in pres]

# keyword arguments named like Python keywords (they are passed through a ** dict in the
# generated code) combined with every other argument kind
CORNER_EXPRS += [f"{callee}({', '.join(args)})"
                 for callee in ("f", "x.m", "x|default", "x is divisibleby")
                 for kwname in ("class", "if", "lambda", "None", "async")
                 for args in (["*a", f"{kwname}=1"], ["1", "*a", f"{kwname}=2", "**b"], [f"{kwname}=1", "**b"],
                              ["b=1", f"{kwname}=2"], ["*a", "b=1", f"{kwname}=2"], ["1", f"{kwname}=2", "*a"])]

# names the generated code uses itself, literals at interpreter limits, constants that cannot be
# built while folding
CORNER_EXPRS += ["f(_loop_vars=1)", "f(_block_vars=1)", "f(1, _loop_vars=x, **k)", "x|f(_loop_vars=1)",
                 "x is t(_block_vars=1)", "f(environment=1)", "f(context=1)", "f(missing=1)", "f(resolve=1)",
                 "f(undefined=1)", "f(concat=1)", "f(l_0_x=1)", "f(t_1=1)", "f(self=1)", "f(__self=1)",
                 "9" * 4400, "1" + "0" * 5000, "-" + "9" * 4301, "0x" + "f" * 5000, "0b" + "1" * 20000,
                 "1_" * 3000 + "1", "1." + "0" * 5000, "9" * 4400 + ".5", "1e" + "9" * 400,
                 "[] == {[]: 1}", "{[]: 1}|length", "1 if {[]: 1}", "{{}: 1}.x", "{[1]: 2}[0]", "{[]: 1} ~ x",
                 "{(1, []): 1}", "[{[]: 1}]", "x in {[]: 1}", "{1: 2, 1: 3}", "{x: 1, x: 2}", "{none: 1, (): 2}"]

# values at interpreter limits INSIDE containers that constant folding builds (no decimal literal)
_BIG = ["10**5000", "-(10**5000)", "2**20000", "0x" + "f" * 5000]
CORNER_EXPRS += [f.replace("B", b) for b in _BIG for f in (
    "[B] + [1]", "(B,) + (1,)", "[B] * 2", "{1: B}", "{B: 1}", "[[B]] + [[]]", "(B, 1)[0:1]", "([B] + [1])|length",
    "x in [B] + [1]", "[B, 1][1]", "{'a': [B]}.a", "[B] + [1] if x else 2", "f(*([B] + [1]))", "([B] + [x])|first",
    "(1, B) + (x,)", "[B] == [B]", "((B,) * 2)[1] > 1")]

CORNER_TAGS = [
    "macro m(a, a)", "macro m(a, ª)", "macro m(__debug__)", "macro m(a=1, b)", "macro m(caller)",
    "macro m(caller=1, x)", "macro m(varargs)", "macro m(kwargs, varargs, caller)", "macro m(self)",
    "macro m(context)", "macro m(environment, missing, resolve, undefined, t_1, concat, Markup)",
    "macro true()", "macro m(true)", "macro class()", "macro m(class)", "macro a.b()", "macro m(*a)",
    "macro m(**k)", "macro m(a,)", "macro m", "macro", "macro 1()", "macro m(1)", "macro m((a, b))",
    "call(a, a) m()", "call(a=1, b) x()", "call", "call x", "call x.y", "call x|f", "call (a) m()",
    "call() m()", "call(a)(b)", "set __debug__ = 1", "set a.b.c = 1", "set a.b", "set (a, b.c) = 1",
    "set () = 1", "set [a] = 1", "set a, = 1", "set true = 1", "set none = 1", "set loop = 1",
    "set t_1 = 1", "set concat = 1", "set ns.class = 1", "set class.x = 1", "set a = ", "set a",
    "set a|", "set a|f(", "set 1 = 1", "set 'a' = 1", "set a.1 = 1", "set a[0] = 1", "set a = b = 1",
    "set a, b = 1, 2", "set (a, (b, c)) = x", "set a b", "set", "set a = 1, ", "set ns.a.b = 1",
    "for a.b in x", "for a.b, c in x", "for () in x", "for [a] in x", "for a, in x", "for true in x",
    "for loop in x", "for x in", "for in x", "for x", "for", "for x in y if", "for x in y recursive if z",
    "for x in y if z recursive", "for x in y recursive recursive", "for x in y, z", "for x in 1 if 2 else 3",
    "for x, (y, z) in w", "for a, a in x", "for x in x", "for __debug__ in x",
    "with a.b = 1", "with true=1", "with a", "with a=", "with a=1,", "with a=1 b=2", "with a=1, a=2",
    "with (a, b) = x", "with", "with __debug__=1",
    "import 'x' as a.b", "import 'x' as true", "import 'x' as __debug__", "import 'x'", "import",
    "import 'x' as", "import 'x' as a with", "import 'x' as a with context without context",
    "from 'x' import a as b.c", "from 'x' import true", "from 'x' import x as none", "from 'x' import",
    "from 'a' import a,", "from 'a' import with context", "from 'a' import a with", "from 'a' import _a",
    "from 'a' import a as _a", "from 'a' import a, a", "from 'a' import a as b, c as b", "from",
    "from 'a' import a with context, b", "from 'a' import with", "from 'a' import context",
    "from 'a' import __debug__", "from 'a' import a as __debug__",
    "block true", "block if", "block class", "block x required", "block x scoped required",
    "block x required scoped", "block x-y", "block", "block 1", "block 'a'", "block x y", "block a.b",
    "block __debug__", "block x scoped scoped",
    "extends", "extends x y", "extends 'a', 'b'", "extends ['a']", "include", "include x ignore",
    "include x ignore missing with", "include x with context ignore missing", "include x, y",
    "include x with context without context",
    "autoescape", "autoescape x y", "filter", "filter x.y", "filter x|y", "filter x(", "filter 1",
    "filter x y", "filter f(a=1, a=2)", "print", "print 1,", "print 1, 2", "print 1 2",
    # a name that occurs only in the arguments of a block-level filter / call
    "set q|d(zz)", "set q|replace(zz, yy)|d(ww)", "set q|d(q)", "filter d(zz)", "filter replace(zz, yy)",
    "call f(caller=1)", "call(a) f(caller=a)", "call f(**{'caller': 1})", "set q = 10**5000", "if 10**5000",
    "call f(zz)", "call(a) f(zz, a)", "call(a=zz) f()", "macro m(a=zz)", "macro m(a, b=a)",
    "for q in zz if yy", "for q in q", "with a=zz, b=a", "autoescape zz",
    # statements that may produce no code, before / after / without extends
    "print %}{% extends 'a'", "extends 'a' %}{% print", "extends x %}{% print",
    "print %}{% extends x", "print %}{% block b %}{% endblock", "if x %}{% print %}{% endif %}{% extends 'a'",
    "set q %}{% endset %}{% extends 'a'", "for q in x %}{% endfor %}{% extends 'a'",
    "if x %}{% endif %}{% extends 'a'", "block b %}{% endblock %}{% extends 'a'",
    "macro m() %}{% endmacro %}{% extends 'a'", "with %}{% endwith %}{% extends 'a'",
    "filter f %}{% endfilter %}{% extends 'a'", "autoescape x %}{% endautoescape %}{% extends 'a'",
    "call f() %}{% endcall %}{% extends 'a'", "do 1 %}{% extends 'a'", "debug %}{% extends 'a'",
    "trans %}{% endtrans %}{% extends 'a'", "raw %}{% endraw %}{% extends 'a'",
    "include 'i' %}{% extends 'a'", "import 'i' as q %}{% extends 'a'", "from 'i' import q %}{% extends 'a'",
    "extends 'a' %}{% extends 'b'", "if x %}{% extends 'a' %}{% endif %}{% print",
    "do", "do 1,", "do x y", "break", "continue", "break x", "debug", "debug x",
    "trans a=1, a=2", "trans a,", "trans a b", "trans trimmed trimmed", "trans trimmed notrimmed",
    "trans 'c' 'd'", "trans 1", "trans a=", "trans a.b", "trans a|f", "trans :", "trans a:",
    "trans num", "trans count=f(x)", "trans __debug__=1", "trans class=1", "pluralize", "endtrans",
    "if", "if x y", "if x,", "if x, y", "elif x", "else", "endif", "endfor", "endblock", "endmacro",
    "raw", "endraw", "raw x", "1", "'a'", "-", "x", "x y", "if x %}{% elif", "if x %}{% else %}{% else",
    "if x %}{% else %}{% elif y", "for x in y %}{% else %}{% else", "for x in y %}{% macro m() %}{% break %}{% endmacro",
    "for x in y %}{% set loop = 1", "for x in y %}{% for loop in z %}{% endfor", "for x in y %}{% break",
    "for x in y %}{% continue", "for x in y %}{% if x %}{% break %}{% endif",
    "for x in y %}{% set z %}{% break %}{% endset", "for x in y %}{% filter f %}{% continue %}{% endfilter",
    "for x in y %}{% call f() %}{% break %}{% endcall", "for x in y %}{% block b %}{% break %}{% endblock",
    "for x in y %}{% with %}{% break %}{% endwith", "for x in y %}{% else %}{% break",
    "for x in y recursive %}{{ loop(x) }}{% break", "macro m() %}{% for x in y %}{% break %}{% endfor",
    "block a %}{% block a %}{% endblock %}", "block a %}{% endblock b", "trans %}{{ a.b }}", "trans %}{% if x %}",
    "trans %}{% pluralize %}", "trans x=f(y) %}{{ x }}{% pluralize z %}", "trans %}{% trans %}",
    "trans %}{{ x }}{% pluralize %}{{ x }}{% pluralize %}", "trans %}{{ 1 }}", "trans %}{{ x y }}",
    "trans %}{{ x", "trans %}{# c #}", "trans %}{% raw %}{{ x }}{% endraw %}", "trans %}",
    "trans x %}{{ x }}{% pluralize %}{{ x }}", "trans num=3 %}{{ num }}{% pluralize %}{{ num }}s",
    "trans x=1, num=2 %}{{ x }}{% pluralize num %}{{ num }}", "trans %}{% endtrans x",
]
_CLOSERS = {"macro": "endmacro", "call": "endcall", "set": None, "for": "endfor", "with": "endwith",
            "block": "endblock", "autoescape": "endautoescape", "filter": "endfilter",
            "trans": "endtrans", "if": "endif", "raw": "endraw"}


CONTAINERS = [("for a{i} in x", "endfor"), ("for a{i} in x recursive", "endfor"), ("if a{i}", "endif"),
              ("with a{i} = 1", "endwith"), ("set s{i}", "endset"), ("filter upper", "endfilter"),
              ("macro m{i}()", "endmacro"), ("call f()", "endcall"), ("block b{i}", "endblock"),
              ("autoescape true", "endautoescape")]


def nest_products(dl, depth):
    """Every ordered tuple of `depth` container constructs nested directly in each other
    (a construct inside itself included), the innermost body printing, assigning and using
    the special names.  [(family, source)]"""
    import itertools

    T = lambda c: dl.bs + " " + c + " " + dl.be  # noqa: E731
    V = lambda c: dl.vs + " " + c + " " + dl.ve  # noqa: E731
    body = V("a0") + T("set q = a1") + V("q") + V("loop.index if loop is defined") + "x"
    out = []
    for combo in itertools.product(range(len(CONTAINERS)), repeat=depth):
        src = "".join(T(CONTAINERS[c][0].replace("{i}", str(i))) for i, c in enumerate(combo))
        src += body + "".join(T(CONTAINERS[c][1]) for c in reversed(combo))
        out.append(("nest-product:" + ">".join(CONTAINERS[c][1][3:] for c in combo), src))
    return out


def corner_cases(dl):
    """[(family, source)] — corner forms wrapped in the config's delimiters,
    both unterminated and closed by the matching end tag."""
    def tr(s):
        return (s.replace("{%", "\0B").replace("%}", "\0b").replace("{{", "\0V")
                .replace("}}", "\0v").replace("{#", "\0C").replace("#}", "\0c")
                .replace("\0B", dl.bs).replace("\0b", dl.be).replace("\0V", dl.vs)
                .replace("\0v", dl.ve).replace("\0C", dl.cs).replace("\0c", dl.ce))

    out = []
    for e in CORNER_EXPRS:
        out.append(("expr", tr("{{ " + e + " }}")))
        out.append(("expr-in-tag", tr("{% if " + e + " %}a{% endif %}")))
        out.append(("expr-in-set", tr("{% set v = " + e + " %}")))
        out.append(("expr-in-arg", tr("{{ f(" + e + ") }}")))
        out.append(("expr-in-loop", tr("{% for q in x %}{{ " + e + " }}{% endfor %}")))
        out.append(("expr-in-block", tr("{% block b %}{{ " + e + " }}{% endblock %}")))
        out.append(("expr-in-recursive-else", tr("{% for q in x %}{% for r in q recursive %}{% else %}{{ " + e + " }}"
                                                 "{% endfor %}{% endfor %}")))
    # loop controls in every position relative to (recursive) loops, else branches and functions
    for kw in ("break", "continue"):
        for outer in ("", "{% for o in x %}", "{% for o in x recursive %}"):
            for rec in ("", " recursive"):
                for where in ("body", "else", "macro-in-body", "call-in-body", "set-in-body", "filter-in-body"):
                    inner = {"body": "{% " + kw + " %}{% else %}e", "else": "b{% else %}{% " + kw + " %}",
                             "macro-in-body": "{% macro m() %}{% " + kw + " %}{% endmacro %}",
                             "call-in-body": "{% call f() %}{% " + kw + " %}{% endcall %}",
                             "set-in-body": "{% set s %}{% " + kw + " %}{% endset %}",
                             "filter-in-body": "{% filter upper %}{% " + kw + " %}{% endfilter %}"}[where]
                    out.append(("loopcontrol-position",
                                tr(outer + "{% for i in y" + rec + " %}" + inner + "{% endfor %}"
                                   + ("{% endfor %}" if outer else ""))))
    # tag names taken from the parser's own vocabulary: every public attribute of the Parser
    # class (parse_<x> -> x as well), of the token stream and of the lexer
    import jinja2.lexer
    import jinja2.parser

    words = set()
    for cls in (jinja2.parser.Parser, jinja2.lexer.TokenStream, jinja2.lexer.Lexer):
        for n in dir(cls):
            if not n.startswith("__"):
                words.add(n)
                words.update(n.split("_", 1)[1:] if n.startswith("parse_") else ())
    for w in sorted(words):
        out.append(("tag-named-like-parser-attribute", tr("{% " + w + " %}")))
        out.append(("tag-named-like-parser-attribute", tr("{% " + w + " x %}y{% end" + w + " %}")))
    for t in CORNER_TAGS:
        out.append(("tag", tr("{% " + t + " %}")))
        first = t.split(" ", 1)[0].split("(")[0]
        closer = _CLOSERS.get(first)
        if closer:
            out.append(("tag-closed", tr("{% " + t + " %}x{% " + closer + " %}")))
        if first == "set" and "=" not in t:
            out.append(("tag-closed", tr("{% " + t + " %}x{% endset %}")))
    return out


# --------------------------------------------------------------- mutators
POOL = [
    "(", ")", "[", "]", "{", "}", "{{", "}}", "{%", "%}", "{#", "#}", "-", "+", "|", ".", ",", ":",
    "=", "==", "**", "*", "//", "~", "'", '"', "'abc", '"abc', "\\", "\x00", "\ud800", "é",
    "²", "·x", "x·", "℘", "ª", "ǅ", "٠", "á", "①",
    "if", "else", "elif", "endif", "for", "in", "endfor", "recursive", "not", "and", "or", "is",
    "set", "endset", "block", "endblock", "macro", "endmacro", "call", "endcall", "filter",
    "endfilter", "raw", "endraw", "with", "endwith", "trans", "pluralize", "endtrans", "autoescape",
    "endautoescape", "extends", "include", "import", "from", "as", "ignore missing", "with context",
    "without context", "scoped", "required", "do", "break", "continue", "debug", "print", "true",
    "none", "loop", "self", "super()", "caller()", "varargs", "kwargs", "trimmed", "context",
    "1e400", "0x", "1__0", "1.e5", "1_", "0b2", "09", "1e", "0o8", "1e+", ".5", "5.", "1.2.3", "0_0",
    "1_000", "0xFF", "1e-5", "__debug__", "_", "\n", "\r", "\r\n", " ", "\t", "\x0b", "\x0c", "\x85",
    " ", "#", "##", "%", "<%", "%>", "${", "<!--", "-->", "<%=", "<%#", "{%-", "-%}", "{{-",
    "-}}", "{#-", "-#}", "{%+", "+%}", "a=1", "x=", "x.y", "x[", "x(", "f(a=1, a=2)", "1 if",
]
MUT_KINDS = ["delete", "duplicate", "swap", "replace", "insert", "splice", "bracket", "unterminated",
             "uniname", "ctrlchar", "literal", "truncate", "charflip"]


def raw_tokens(env, src):
    """Token values from the public lexer; falls back to a crude split."""
    try:
        toks = [v for _, _, v in env.lex(src)]
        if toks:
            return toks
    except Exception:
        pass
    return [x for x in re.split(r"(\s+|\w+|.)", src) if x]


def mutate(rng, toks, other_toks, dl):
    """One mutation of a token list; returns (kind, new source)."""
    r = rng
    toks = list(toks) or ["x"]
    k = r.choice(MUT_KINDS)
    i = r.randrange(len(toks))
    sig = [j for j, t in enumerate(toks) if t.strip()] or [i]
    i = r.choice(sig) if r.random() < 0.8 else i
    pool = POOL + [dl.bs, dl.be, dl.vs, dl.ve, dl.cs, dl.ce] + ([dl.ls, dl.lc] if dl.ls else [])
    if k == "delete":
        n = 1 if r.random() < 0.8 else r.randint(2, 4)
        del toks[i:i + n]
    elif k == "duplicate":
        toks.insert(i, toks[i])
    elif k == "swap":
        j = r.choice(sig)
        toks[i], toks[j] = toks[j], toks[i]
    elif k == "replace":
        toks[i] = r.choice(pool)
    elif k == "insert":
        toks.insert(i, r.choice(pool) + r.choice(["", " "]))
    elif k == "splice":
        o = list(other_toks) or ["y"]
        j = r.randrange(len(o))
        toks = toks[:i] + o[j:] if r.random() < 0.5 else o[:j] + toks[i:]
    elif k == "bracket":
        toks.insert(i, r.choice("([{)]}") * r.choice([1, 1, 2]))
    elif k == "unterminated":
        toks.insert(i, r.choice(["'abc", '"abc', "'a\\", "'''", '"\\"', "'\n"]))
    elif k == "uniname":
        toks[i] = r.choice(["é", "²", "·x", "x·", "℘", "℮", "ª",
                            "ǅ", "٠", "á", "́a", "①", "ﬁ", "ᢅ",
                            "\U0001d7ce", "\U00010000", "‍x", "x‌", "ㅤ", "ⸯ"])
    elif k == "ctrlchar":
        toks.insert(i, r.choice(["\x00", "\ud800", "\udfff", "\ud83d", "\x1c", "\x85", " ",
                                 " ", "﻿", "\x7f", "\x0b", "\x0c", "\x1f", "￾"]))
    elif k == "literal":
        toks[i] = r.choice(["1e400", "0x", "1__0", "1.e5", "1_", "0b2", "09", "1e", "0o8", "1e+",
                            ".5", "5.", "1.2.3", "0_0", "00_1", "1_000.0", "0xFF", "1e-5", "1E5",
                            "0b_1", "0x_f", "1_e5", "1e_5", "1._5", "1j", "1L", "0777", "0e0",
                            "9" * 40, "0." + "0" * 40 + "1", "1e-400", "1" + "_0" * 20])
    elif k == "truncate":
        s = "".join(toks)
        cut = r.randrange(len(s) + 1)
        return k, s[:cut]
    elif k == "charflip":
        s = "".join(toks)
        if s:
            p = r.randrange(len(s))
            s = s[:p] + r.choice("{}%#()[]'\"|.-+ \n=,:~*/<>!xX1_\\") + s[p + 1:]
        return k, s
    return k, "".join(toks)


# ---------------------------------------------------- exhaustive alphabet
ALPHABET = ["{{", "}}", "{%", "%}", "{#", "#}", "-", "+", "raw", "endraw", "if", "for", "x", "(",
            ")", "[", ".", "|", "'", '"', "1", "\n", " ", "=", ","]


def alphabet_for(dl):
    """The 25 symbols with the delimiter fragments translated to the config.
    For line-statement configs the comment pair becomes the line prefixes."""
    m = {"{{": dl.vs, "}}": dl.ve, "{%": dl.bs, "%}": dl.be, "{#": dl.cs, "#}": dl.ce}
    if dl.ls:
        m["{#"] = dl.lc
        m["#}"] = dl.ls
    return [m.get(s, s) for s in ALPHABET]


_shape_re = re.compile(r"[^\W\d]\w*|\d+|\s+|.", re.S)
_KW = {"if", "else", "elif", "endif", "for", "in", "endfor", "set", "endset", "block", "endblock",
       "macro", "endmacro", "call", "endcall", "filter", "endfilter", "raw", "endraw", "with",
       "endwith", "trans", "pluralize", "endtrans", "autoescape", "endautoescape", "extends",
       "include", "import", "from", "as", "do", "break", "continue", "debug", "print", "not", "and",
       "or", "is", "recursive", "scoped", "required", "true", "false", "none", "loop"}


def shape(src, limit=60):
    """Harness-side abstraction of a source string: identifiers -> n (keywords
    kept), digit runs -> 1, whitespace runs -> one space or newline."""
    out = []
    for m in _shape_re.finditer(src):
        t = m.group()
        if t[0].isspace():
            out.append("\n" if ("\n" in t or "\r" in t) else " ")
        elif t[0].isdigit():
            out.append("1")
        elif t[0].isalpha() or t[0] == "_":
            out.append(t if t in _KW else "n")
        else:
            out.append(t)
        if len(out) >= limit:
            break
    return "".join(out)
