"""Regenerates /verif/MANIFEST.json from the check modules that exist."""
import importlib
import json
import os
import sys

HERE = os.path.dirname(os.path.dirname(os.path.abspath(__file__)))
sys.path.insert(0, HERE)

NOT_BUILT = "check not built yet (in progress; see DESIGN.md section 3 for the planned monitor)"


def main():
    props = [json.loads(l) for l in open(os.path.join(HERE, "properties.jsonl"))]
    checks, na = [], []
    accepted = set(open(os.path.join(HERE, "vt", "accepted.txt")).read().split())
    for p in props:
        pid = p["id"]
        path = os.path.join(HERE, "vt", "checks", pid.lower() + ".py")
        if not os.path.exists(path) or pid not in accepted:
            na.append({"property_id": pid, "reason": NOT_BUILT})
            continue
        mod = importlib.import_module("vt.checks." + pid.lower())
        if getattr(mod, "NOT_APPLICABLE", None):
            na.append({"property_id": pid, "reason": mod.NOT_APPLICABLE})
            continue
        checks.append({
            "property_id": pid,
            "quick_cmd": f"/venv/bin/python -m vt.check {pid} --tier quick",
            "thorough_cmd": f"/venv/bin/python -m vt.check {pid} --tier thorough",
            "evidence_file": f"/verif/evidence/{pid}.json",
            "replay_cmd_template": f"/venv/bin/python -m vt.check {pid} --replay {{path}}",
            "engine": "vt",
            "level_claimed": {
                "category": getattr(mod, "LEVEL", "exploration"),
                "text": getattr(mod, "LEVEL_TEXT", mod.RULE),
                "design_ref": f"DESIGN.md section 3, {pid}",
            },
            "level_note": "; ".join(getattr(mod, "ASSUMPTIONS", [])) or "none",
            "technique": getattr(mod, "TECHNIQUE", "runtime monitoring: oracle over executions of the real code"),
        })
    man = {
        "version": 1,
        "setup_cmd": "/venv/bin/python -m vt.setup",
        "hooks": {
            "guard": "JINJA_VERIF",
            "enable": "no source hooks: every monitor attaches from outside (sys.monitoring, "
                      "asyncgen hooks, audit hooks, wrapped entry points, probe objects); "
                      "JINJA_VERIF is reserved and unused",
            "baseline_off_cmd": "cd /repo && /venv/bin/python -m pytest -ra -q -p no:cacheprovider --timeout=900 --continue-on-collection-errors",
            "source_commits": [],
            "add_only": True,
        },
        "engines": [{
            "name": "vt",
            "path": "/verif/vt",
            "serves_properties": [c["property_id"] for c in checks],
            "kind_free_text": "runtime monitoring harness: generators + monitors + executable reference oracles, sharded over subprocesses",
        }],
        "checks": checks,
        "notes": "Fix commits in /repo (55, each starting with 'fix:') are listed with status=fixed in known_findings.json and known_findings.d/*.json; status=known entries are the recorded, unrepaired findings.",
        "not_applicable": na,
    }
    with open(os.path.join(HERE, "MANIFEST.json"), "w") as f:
        json.dump(man, f, indent=1)
        f.write("\n")
    print(f"{len(checks)} checks, {len(na)} not claimed")


if __name__ == "__main__":
    main()
