"""C25 reference model of the environment's template cache.

Written from the documentation (api.rst: `cache_size`, `auto_reload`, the
Loaders section and the loader docstrings), not from the implementation:

* cache_size n > 0: at most n templates are kept; when a new one is loaded
  the least recently used one is cleaned out.  0: recompiled every time.
  -1: never cleaned.
* auto_reload: every time a template is requested the loader's up-to-date
  check decides; changed -> reload.  Without auto_reload a cached template is
  served as is.  A loader that supplies no up-to-date check (FunctionLoader
  returning a plain string) can never report a change.

Where the documentation is silent the model is *nondeterministic*: it keeps
the set of all states a conforming implementation could be in and accepts an
observation if at least one of them predicts it.  Silent points:
  - a changed source whose text equals the cached text (e.g. file rewritten
    with identical content, new mtime): reload or serve (unless the
    up-to-date callable is the harness's own, whose answer is binding);
  - a failed reload (source deleted): the stale entry may stay (touched or
    not) or be dropped.

State: tuple of (key, Entry) pairs, least recently used first.  key =
(loader id, template name).  Entry = (ident, text, stamp).

Direct use of the cache object (``env.cache``: the LRU mapping of capacity
cache_size the environment keeps its templates in, a plain dict when
unbounded) by the application -- pre-warming, inspection, invalidation -- is
modelled by ``cache_op_outcomes`` from the LRUCache docstrings: get /
__getitem__ / setdefault of a present key are uses (the item gets "the highest
priority"), __setitem__ makes the key the most recent one and cleans out the
least recently used item only when a NEW key arrives at a full cache,
setdefault of an absent key is an insert like __setitem__, __delitem__ /
clear remove, `in` reports presence (whether it counts as a use is not
documented: both accepted), iteration / copy change nothing.
"""
from __future__ import annotations

NF = ("nf",)


class Cfg:
    __slots__ = ("size", "auto_reload", "has_check", "binding_stamp")

    def __init__(self, size, auto_reload, has_check, binding_stamp):
        self.size = size                  # 0, n>0, or -1 (unbounded)
        self.auto_reload = auto_reload
        self.has_check = has_check        # loader supplies an up-to-date check
        self.binding_stamp = binding_stamp  # check is stamp based and binding


def _find(state, key):
    for k, e in state:
        if k == key:
            return e
    return None


def _without(state, key):
    return tuple((k, e) for k, e in state if k != key)


def _touch(state, key):
    e = _find(state, key)
    return _without(state, key) + ((key, e),)


def _store(state, key, entry, size):
    s = _without(state, key)
    if size > 0 and len(s) >= size:
        s = s[len(s) - size + 1:]          # drop least recently used
    return s + ((key, entry),)


def get_outcomes(state, cfg, lid, name, cur, new_ident):
    """All (loads, result, next_state) a conforming cache may show for one
    lookup of `name` through loader `lid` whose current source is
    cur = (text, stamp) or None (deleted)."""
    key = (lid, name)
    loads = (name,)

    def load_from(s):
        if cur is None:
            return [(loads, NF, s)]
        ent = (new_ident, cur[0], cur[1])
        if cfg.size == 0:
            return [(loads, ("ok", new_ident, cur[0]), s)]
        return [(loads, ("ok", new_ident, cur[0]), _store(s, key, ent, cfg.size))]

    if cfg.size == 0:
        return load_from(state)
    ent = _find(state, key)
    if ent is None:
        return load_from(state)
    touched = _touch(state, key)
    serve = [((), ("ok", ent[0], ent[1]), touched)]
    if not cfg.auto_reload or not cfg.has_check:
        return serve
    if cur is not None and cur == (ent[1], ent[2]):
        return serve
    out = []
    if cur is not None and cur[0] == ent[1] and not cfg.binding_stamp:
        out += serve                       # same text: reload optional
    if cur is None:
        # failed reload: what happens to the stale entry is unspecified
        out += [(loads, NF, state), (loads, NF, touched),
                (loads, NF, _without(state, key))]
    else:
        out += load_from(touched)
    return out


def op_outcomes(state, cfg, lid, names, world, new_ident):
    """get (one name) or select (several names tried in order).  Returns a
    list of (loads, result, next_state); loads accumulate over the names."""
    results = []

    def rec(i, s, loads):
        if i == len(names):
            results.append((loads, NF, s))
            return
        for l, r, s2 in get_outcomes(s, cfg, lid, names[i], world.get(names[i]), new_ident):
            if r == NF:
                rec(i + 1, s2, loads + l)
            else:
                results.append((loads + l, r, s2))

    rec(0, state, ())
    return results


CACHE_OPS = ("setdefault", "get", "getitem", "setitem", "delitem", "contains", "clear")


def cache_op_outcomes(state, cfg, op, key, ent):
    """All (result, next_state) a conforming cache may show for one direct
    operation on the cache object.  ``ent`` is the entry the harness offers
    (setdefault / setitem).  result: ("val", ident) | ("none",) | ("keyerror",)
    | ("done",) | ("bool", b)."""
    cur = _find(state, key)
    if op == "setdefault":
        if cur is not None:
            return [(("val", cur[0]), _touch(state, key))]
        return [(("val", ent[0]), _store(state, key, ent, cfg.size))]
    if op == "get":
        if cur is not None:
            return [(("val", cur[0]), _touch(state, key))]
        return [(("none",), state)]
    if op == "getitem":
        if cur is not None:
            return [(("val", cur[0]), _touch(state, key))]
        return [(("keyerror",), state)]
    if op == "setitem":
        return [(("done",), _store(state, key, ent, cfg.size))]
    if op == "delitem":
        if cur is not None:
            return [(("done",), _without(state, key))]
        return [(("keyerror",), state)]
    if op == "contains":
        if cur is None:
            return [(("bool", False), state)]
        out = [(("bool", True), state)]
        t = _touch(state, key)
        if t != state:
            out.append((("bool", True), t))
        return out
    if op == "clear":
        return [(("done",), ())]
    raise AssertionError(op)
