"""C14 helper: spell Python str/int/float values as literals (several
alternative, always *valid Python* spellings) and give the Python value of a
spelling.  Every atom's meaning is known by construction; `python_value`
cross-checks with Python's own literal evaluator where Python can read the text.
"""
from __future__ import annotations

import ast
import unicodedata
import warnings

SIMPLE = {"\\": "\\\\", "'": "\\'", '"': '\\"', "\a": "\\a", "\b": "\\b", "\f": "\\f",
          "\n": "\\n", "\r": "\\r", "\t": "\\t", "\v": "\\v"}

# code point classes (name, sampler over rng)
CLASSES = [
    ("ascii_letter", lambda r: r.choice("abcxyzABCXYZ")),
    ("ascii_digit", lambda r: r.choice("0123456789")),
    ("octal_digit", lambda r: r.choice("01234567")),
    ("hex_letter", lambda r: r.choice("abcdefABCDEF")),
    ("escape_letter", lambda r: r.choice("abfnrtvxuUNo")),
    ("quote", lambda r: r.choice("'\"")),
    ("backslash", lambda r: "\\"),
    ("delim", lambda r: r.choice("{}%#-+")),
    ("space", lambda r: r.choice(" \t")),
    ("linebreak", lambda r: r.choice("\n\r")),
    ("control", lambda r: chr(r.choice(list(range(0, 9)) + [11, 12] + list(range(14, 32)) + [127]))),
    ("latin1", lambda r: chr(r.randint(0x80, 0xFF))),
    ("unicode_break", lambda r: r.choice("\x85\u2028\u2029\x1c\x1d\x1e\x0b\x0c\xa0\u3000")),
    ("bmp", lambda r: chr(r.choice([r.randint(0x100, 0xD7FF), r.randint(0xE000, 0xFFFF)]))),
    ("bmp_edge", lambda r: r.choice("\u0100\ud7ff\ue000\ufeff\ufffe\uffff\xff\x80\x7f")),
    ("surrogate", lambda r: chr(r.randint(0xD800, 0xDFFF))),
    ("astral", lambda r: chr(r.choice([0x10000, 0x10FFFF, 0x1F600, r.randint(0x10000, 0x10FFFF)]))),
]
CLASS_NAMES = [c[0] for c in CLASSES]


def gen_value(rng, maxlen=10):
    """-> (value, sorted list of class names used)"""
    n = rng.choice([0, 1, 1, 2, 3, 4, 6, rng.randint(0, maxlen)])
    # pick a small palette so that interesting neighbours (e.g. backslash + n) happen
    pal = [rng.choice(CLASSES) for _ in range(rng.randint(1, 4))]
    chars, used = [], set()
    for _ in range(n):
        name, f = rng.choice(pal)
        chars.append(f(rng))
        used.add(name)
    return "".join(chars), sorted(used)


def atom_options(ch, quote):
    """All valid spellings of one character inside a `quote`-quoted literal:
    list of (kind, text)."""
    cp = ord(ch)
    out = []
    if ch not in ("\\", "\n", "\r") and ch != quote:
        if cp < 0x20 or cp == 0x7F:
            out.append(("raw-control", ch))
        elif cp < 0x80:
            out.append(("raw-ascii", ch))
        elif 0xD800 <= cp <= 0xDFFF:
            out.append(("raw-surrogate", ch))
        else:
            out.append(("raw-nonascii", ch))
    if ch in SIMPLE:
        out.append(("esc-simple", SIMPLE[ch]))
    if cp <= 0o377:
        out.append(("esc-oct", "\\%03o" % cp))
        if cp < 0o100:
            out.append(("esc-oct-short", "\\%o" % cp))
    if cp <= 0xFF:
        out.append(("esc-x", "\\x%02x" % cp))
        out.append(("esc-x", "\\x%02X" % cp))
    if cp <= 0xFFFF:
        out.append(("esc-u", "\\u%04x" % cp))
        out.append(("esc-u", "\\u%04X" % cp))
    out.append(("esc-U", "\\U%08x" % cp))
    out.append(("esc-U", "\\U%08X" % cp))
    try:
        nm = unicodedata.name(ch)
    except ValueError:
        nm = None
    if nm:
        for cand in (nm, nm.lower()):
            if _name_ok(cand, ch):
                out.append(("esc-N", "\\N{%s}" % cand))
    return out


_name_cache = {}


def _name_ok(name, ch):
    """Only names Python itself accepts in a literal (algorithmic names are
    case sensitive)."""
    if name not in _name_cache:
        _name_cache[name] = python_value("'\\N{%s}'" % name) == ("ok", ch)
    return _name_cache[name]


def spell_part(rng, value, quote, style):
    """Spell `value` as one quoted literal. style: 'mixed' | 'raw-pref' | 'esc-only'.
    -> (text, [(atom kind, atom text, character)])"""
    atoms = []
    for ch in value:
        opts = atom_options(ch, quote)
        if style == "raw-pref":
            raw = [o for o in opts if o[0].startswith("raw")]
            if raw and rng.random() < 0.85:
                opts = raw
        elif style == "esc-only":
            esc = [o for o in opts if not o[0].startswith("raw")]
            opts = esc or opts
        kind, text = rng.choice(opts)
        atoms.append([kind, text])
    # a short octal escape must not be followed by a raw octal digit
    for i, (kind, text) in enumerate(atoms):
        if kind == "esc-oct-short" and i + 1 < len(atoms):
            nxt = atoms[i + 1][1]
            if nxt[:1] in "01234567":
                atoms[i] = ["esc-oct", "\\%03o" % ord(value[i])]
    body = []
    rec = []
    for (kind, text), ch in zip(atoms, value):
        if style != "repr" and rng.random() < 0.03:
            body.append("\\\n")          # line continuation: contributes nothing
            rec.append(("linecont", "\\\n", ""))
        body.append(text)
        rec.append((kind, text, ch))
    return quote + "".join(body) + quote, rec


def split_value(rng, value, k):
    cuts = sorted(rng.randint(0, len(value)) for _ in range(k - 1))
    parts, prev = [], 0
    for c in cuts:
        parts.append(value[prev:c])
        prev = c
    parts.append(value[prev:])
    return parts


def spell_string(rng, value):
    """-> (spelling, info) ; info: form, kinds (list), nparts, joiners"""
    form = rng.choice(["repr", "ascii", "mixed", "mixed", "raw-pref", "esc-only", "concat",
                       "concat"])
    if form == "repr":
        return repr(value), {"form": form, "kinds": ["repr"], "nparts": 1, "atoms": None}
    if form == "ascii":
        return ascii(value), {"form": form, "kinds": ["ascii"], "nparts": 1, "atoms": None}
    if form != "concat":
        q = rng.choice("'\"")
        text, atoms = spell_part(rng, value, q, form)
        return text, {"form": form, "kinds": [a[0] for a in atoms], "nparts": 1, "atoms": atoms}
    k = rng.randint(2, 4)
    parts = split_value(rng, value, k)
    texts, atoms = [], []
    for p in parts:
        t, at = spell_part(rng, p, rng.choice("'\""), rng.choice(["mixed", "raw-pref", "esc-only"]))
        texts.append(t)
        atoms.extend(at)
    out = texts[0]
    joiners = []
    for t in texts[1:]:
        j = rng.choice(["", " ", "  ", "\t", "\n", " \n "])
        if j == "" and (len(t) == 2 or out[-2:] in ("''", '""')):
            j = " "        # Python would read three quotes in a row as a triple-quoted string
        joiners.append(j)
        out += j + t
    return out, {"form": form, "kinds": [a[0] for a in atoms], "nparts": k, "joiners": joiners,
                 "atoms": atoms}


def python_value(spelling):
    """Python's value of the literal text, or ('unreadable', reason) when the
    Python tokenizer cannot take the text (NUL, lone surrogates, ...)."""
    if "\x00" in spelling:
        return ("unreadable", "NUL")
    try:
        with warnings.catch_warnings():
            warnings.simplefilter("error")
            return ("ok", ast.literal_eval("(" + spelling + ")"))
    except (UnicodeEncodeError, UnicodeDecodeError) as e:
        return ("unreadable", type(e).__name__)
    except (SyntaxError, ValueError, Warning) as e:
        return ("rejected", f"{type(e).__name__}: {e}")


# ----------------------------------------------------------------- numbers
def underscore(rng, digits, p=0.3):
    """Insert single underscores between digits."""
    out = digits[0]
    for d in digits[1:]:
        if rng.random() < p:
            out += "_"
        out += d
    return out


def spell_int(rng, n):
    """n >= 0 -> (spelling, form)"""
    base = rng.choice(["dec", "dec", "hex", "oct", "bin"])
    us = rng.random() < 0.5
    if base == "dec":
        d = str(n)
        if n == 0 and rng.random() < 0.5:
            d = "0" * rng.randint(1, 4)
        s = underscore(rng, d) if us else d
    else:
        digits = {"hex": "%x", "oct": "%o"}.get(base)
        d = (digits % n) if digits else bin(n)[2:]
        if base == "hex" and rng.random() < 0.5:
            d = d.upper()
        if rng.random() < 0.2:
            d = "0" * rng.randint(1, 3) + d
        if us:
            d = underscore(rng, d)
            if rng.random() < 0.3:
                d = "_" + d
        pre = {"hex": "x", "oct": "o", "bin": "b"}[base]
        if rng.random() < 0.4:
            pre = pre.upper()
        s = "0" + pre + d
    return s, base + ("_" if "_" in s else "")


def gen_int(rng):
    k = rng.randrange(8)
    if k == 0:
        return rng.choice([0, 1, 7, 8, 9, 10, 255, 256])
    if k == 1:
        return rng.choice([2**31 - 1, 2**31, 2**32, 2**63 - 1, 2**63, 2**64, 2**64 + 1])
    if k == 2:
        return rng.randint(0, 10**6)
    if k == 3:
        return rng.getrandbits(rng.randint(1, 200))
    if k == 4:
        return rng.getrandbits(rng.randint(200, 3000))
    if k == 5:
        return 10 ** rng.randint(1, 900)
    if k == 6:
        return 10 ** rng.randint(1, 300) - 1
    return rng.randint(0, 10**18)


def gen_float(rng):
    import struct

    k = rng.randrange(7)
    if k == 0:
        return rng.choice([0.0, 0.1, 0.5, 1.0, 1 / 3, 2 / 3, 123456.789, 1e16, 1e22, 1e23,
                           9007199254740993.0, 0.30000000000000004])
    if k == 1:
        return rng.choice([5e-324, 2.2250738585072014e-308, 2.225073858507201e-308,
                           1.7976931348623157e308, 1e-320, 1e308, 4.9e-324])
    if k == 2:
        while True:
            f = struct.unpack("<d", struct.pack("<Q", rng.getrandbits(63)))[0]
            if f == f and f not in (float("inf"),):
                return f
    if k == 3:
        return rng.uniform(0, 1000)
    if k == 4:
        return float(10.0 ** rng.randint(-320, 308))
    if k == 5:
        return rng.random() * 10.0 ** rng.randint(-300, 300)
    return float(rng.randint(0, 10**6)) / rng.choice([1, 10, 100, 1000, 3, 7])


def _us_digits(rng, s):
    return underscore(rng, s) if len(s) > 1 else s


def spell_float(rng, f):
    """f finite, >= 0 -> (spelling, form, roundtrip: bool)"""
    form = rng.choice(["repr", "repr", "e17", "E17", "fixed", "underscore", "leadzero", "exp0"])
    r = repr(f)
    if form == "repr" or ("e" in r and form in ("fixed", "underscore", "leadzero")):
        return r, "repr" + ("-exp" if "e" in r else ""), True
    if form == "e17":
        return "%.17e" % f, form, True
    if form == "E17":
        return "%.17E" % f, form, True
    if form == "exp0":   # exponent with leading zeros / explicit plus
        m, e = ("%.17e" % f).split("e")
        sign = e[0]
        return m + "e" + (sign if sign == "-" or rng.random() < 0.5 else "") + "00" + e[1:], \
            form, True
    ip, _, fp = r.partition(".")
    if form == "fixed":
        return ip + "." + fp + "0" * rng.randint(0, 5), form, True
    if form == "underscore":
        s = _us_digits(rng, ip) + "." + _us_digits(rng, fp)
        return s, form if "_" in s else "fixed", True
    return "0" * rng.randint(1, 3) + ip + "." + fp, "leadzero", True


# ----------------------------------------------------------------- literal boundaries
# Adjacent string literals denote the concatenation of the VALUES of the individual literals
# (property C14: "same values as Python literals ... adjacent string concatenation"; CHANGES 2.5
# "implicit string literal concatenation"; Python reference: "multiple adjacent string literals
# ... are allowed, and their meaning is the same as their concatenation").  Each literal is escape-complete on its
# own, so what the next literal starts with can never extend the last escape of the previous
# one.  TAILS: what a literal may END in - every escape kind, incl. the variable-length octal
# escapes with 1, 2 and 3 digits; HEADS: what the next literal may START with - characters that
# WOULD extend / complete / re-interpret the escape if the literal bodies were glued together
# before decoding (octal digits, hex digits, braces, escape letters) and escapes of its own.
TAILS = [
    # (kind, text inside the quotes, value)
    ("esc-oct-1digit", "\\1", "\x01"), ("esc-oct-1digit", "\\0", "\x00"),
    ("esc-oct-1digit", "\\7", "\x07"),
    ("esc-oct-2digit", "\\12", "\n"), ("esc-oct-2digit", "\\00", "\x00"),
    ("esc-oct-2digit", "\\37", "\x1f"), ("esc-oct-2digit", "\\01", "\x01"),
    ("esc-oct-3digit", "\\101", "A"), ("esc-oct-3digit", "\\001", "\x01"),
    ("esc-oct-3digit", "\\377", "\xff"),
    ("esc-x", "\\x41", "A"), ("esc-x", "\\x0a", "\n"), ("esc-x", "\\xfF", "\xff"),
    ("esc-u", "\\u0041", "A"), ("esc-u", "\\u20ac", "€"),
    ("esc-U", "\\U00000041", "A"), ("esc-U", "\\U0001f600", "\U0001f600"),
    ("esc-N", "\\N{DIGIT ONE}", "1"), ("esc-N", "\\N{LATIN SMALL LETTER A}", "a"),
    ("esc-simple", "\\n", "\n"), ("esc-simple", "\\t", "\t"), ("esc-simple", "\\'", "'"),
    ("esc-simple", '\\"', '"'),
    ("esc-backslash", "\\\\", "\\"), ("esc-backslash", "a\\\\", "a\\"),
    ("linecont", "\\\n", ""), ("linecont", "b\\\n", "b"),
    ("raw", "a", "a"), ("raw", "7", "7"),
]
HEADS = [
    # (class, text inside the quotes, value)
    ("octal-digit", "1", "1"), ("octal-digit", "0", "0"), ("octal-digit", "7", "7"),
    ("octal-digit", "12", "12"), ("octal-digit", "123", "123"), ("octal-digit", "01", "01"),
    ("digit-8-9", "8", "8"), ("digit-8-9", "91", "91"),
    ("hex-letter", "a", "a"), ("hex-letter", "F", "F"), ("hex-letter", "fe", "fe"),
    ("octal-digit", "41", "41"), ("octal-digit", "0041", "0041"),
    ("octal-digit", "00000041", "00000041"), ("digit-8-9", "9f", "9f"),
    ("brace", "{", "{"), ("brace", "{DIGIT ONE}", "{DIGIT ONE}"), ("brace", "}", "}"),
    ("escape-letter", "n", "n"), ("escape-letter", "t", "t"), ("escape-letter", "x41", "x41"),
    ("escape-letter", "u0041", "u0041"), ("escape-letter", "U00000041", "U00000041"),
    ("escape-letter", "N{DIGIT ONE}", "N{DIGIT ONE}"),
    ("escape", "\\1", "\x01"), ("escape", "\\\\", "\\"), ("escape", "\\x31", "1"),
    ("escape", "\\n", "\n"),
    ("other", " ", " "), ("other", "z", "z"),
]
BOUNDARY_JOINERS = ["", " ", "  ", "\t", "\n", " \n ", "\r\n", "\r"]
QUOTE_PAIRS = [("'", "'"), ('"', '"'), ("'", '"'), ('"', "'")]


def head_class(text):
    """Class of what a literal body starts with (for mechanism keys)."""
    c = text[:1]
    if c == "\\":
        return "escape"
    if c in "01234567":
        return "octal-digit"
    if c in "89":
        return "digit-8-9"
    if c in "{}":
        return "brace"
    if c in "nrtvxuUNo":
        return "escape-letter"
    if c in "abcdefABCDEF":
        return "hex-letter"
    return "other"


def tail_kind(atom_kind, text):
    if atom_kind in ("esc-oct", "esc-oct-short"):
        return "esc-oct-%ddigit" % (len(text) - 1)
    if atom_kind == "esc-simple" and text == "\\\\":
        return "esc-backslash"
    return "raw" if atom_kind.startswith("raw") else atom_kind


def glued_value(parts):
    """Python's reading of ONE literal whose body is the bodies of all parts glued together (what
    decoding after joining would give): ("ok", value) | ("rejected",) | ("n/a",) when the bodies
    cannot share one quote style."""
    body = "".join(p["text"][1:-1] for p in parts)
    if "\n" in body.replace("\\\n", "") or "\r" in body:
        return ("n/a",)
    for q in ("'", '"'):
        if q not in body.replace("\\\\", "").replace("\\" + q, ""):
            pv = python_value(q + body + q)
            return ("ok", pv[1]) if pv[0] == "ok" else ("rejected",) if pv[0] == "rejected" \
                else ("n/a",)
    return ("n/a",)


def boundary_spelling(parts, joiners):
    """parts: [{'text': quoted literal, 'value': str, 'tail': kind|None, 'head': class|None}]"""
    out = parts[0]["text"]
    for j, p in zip(joiners, parts[1:]):
        out += j + p["text"]
    return out


def boundary_info(parts, joiners, form):
    value = "".join(p["value"] for p in parts)
    kinds = sorted({p["tail"] for p in parts[:-1]} | {"linecont" for p in parts
                                                      if "\\\n" in p["text"]})
    g = glued_value(parts)
    return value, {"form": form, "kinds": kinds, "nparts": len(parts), "joiners": list(joiners),
                   "atoms": None, "parts": [[p["text"], p["value"]] for p in parts],
                   "boundaries": [[a["tail"], head_class(b["text"][1:-1])]
                                  for a, b in zip(parts, parts[1:])],
                   "glue": "n/a" if g[0] == "n/a" else "invalid" if g[0] == "rejected" else
                   ("same" if g[1] == value else "changes-value")}


def systematic_boundary(tail, head, qpair, joiner):
    tk, tt, tv = tail
    hc, ht, hv = head
    q1, q2 = qpair
    parts = [{"text": q1 + tt + q1, "value": tv, "tail": tk},
             {"text": q2 + ht + q2, "value": hv, "tail": None}]
    value, info = boundary_info(parts, [joiner], "concat-boundary-table")
    return boundary_spelling(parts, [joiner]), value, info


_HEAD_CHARS = "0123456701234567" + "89" + "abcdefABCDEF" + "{}" + "nrtvxuUNo" + " z-"


def random_boundary(rng):
    """2-4 adjacent literals; every boundary falls directly after a randomly spelled ESCAPE
    (or, now and then, a raw character) of a random character, and the next literal starts with a
    raw character drawn from the digits / hex digits / braces / escape letters (or an escape)."""
    k = rng.choice((2, 2, 3, 4))
    parts = []
    for i in range(k):
        q = rng.choice("'\"")
        body, value = [], []
        if i > 0:
            if rng.random() < 0.85:
                n = rng.choice((1, 1, 2, 3, 8))
                h = "".join(rng.choice(_HEAD_CHARS) for _ in range(n))
                if rng.random() < 0.3:
                    h = rng.choice(("{DIGIT ONE}", "x41", "u0041", "N{DIGIT ONE}", "123", "0041"))
                body.append(h)
                value.append(h)
            else:
                ch = CLASSES[rng.randrange(len(CLASSES))][1](rng)
                kind, text = rng.choice([o for o in atom_options(ch, q)
                                         if not o[0].startswith("raw")
                                         and o[0] != "esc-oct-short"])
                body.append(text)
                value.append(ch)
        # middle
        mid, _ = gen_value(rng, 4)
        if mid and rng.random() < 0.5:
            t, at = spell_part(rng, mid, q, rng.choice(["mixed", "esc-only"]))
            if not any(a[0] == "linecont" for a in at):
                # a short octal escape must not be followed by the raw digit that may come next
                # INSIDE this literal; re-spell the last atom long
                if at and at[-1][0] == "esc-oct-short":
                    t = t[:-1 - len(at[-1][1])] + ("\\%03o" % ord(mid[-1])) + t[-1]
                body.append(t[1:-1])
                value.append(mid)
        tail = None
        if i < k - 1:
            if rng.random() < 0.9:
                pool = [c for c in CLASSES if c[0] not in ("surrogate",)]
                ch = rng.choice(pool)[1](rng) if rng.random() < 0.5 else \
                    chr(rng.choice([0, 1, 2, 7, 8, 9, 10, 13, 27, 31, 33, 48, 63, 65, 127, 255]))
                opts = [o for o in atom_options(ch, q) if not o[0].startswith("raw")]
                kind, text = rng.choice(opts)
                short = [o for o in opts if o[0] == "esc-oct-short"]
                if short and rng.random() < 0.35:
                    kind, text = short[0]
                    if rng.random() < 0.4 and ord(ch) < 8:
                        text = "\\0%o" % ord(ch)           # two-digit form
                tail = tail_kind(kind, text)
            else:
                ch = rng.choice("a7f{\\")
                text = SIMPLE.get(ch, ch)
                tail = tail_kind("esc-simple" if ch in SIMPLE else "raw-ascii", text)
            body.append(text)
            value.append(ch)
        parts.append({"text": q + "".join(body) + q, "value": "".join(value), "tail": tail})
    joiners = []
    for a, b in zip(parts, parts[1:]):
        j = rng.choice(BOUNDARY_JOINERS)
        if j == "" and (len(b["text"]) == 2 or len(a["text"]) == 2):
            j = " "        # three quotes in a row would start a triple-quoted string in Python
        joiners.append(j)
    value, info = boundary_info(parts, joiners, "concat-boundary")
    return boundary_spelling(parts, joiners), value, info
