"""Model-side definitions of the small set of built-in filters, tests the
program generators use.  Written from the "List of Builtin Filters/Tests"
documentation; signature f(interp, value, *args, **kwargs)."""
from __future__ import annotations

import numbers


def _U():
    from vt.model import interp
    return interp


def f_default(i, v, default_value="", boolean=False):
    m = _U()
    if m.is_undef(v) or (boolean and not v):
        return default_value
    return v


def _need(v):
    m = _U()
    if m.is_undef(v):
        m.undef_error(v)
    return v


def f_upper(i, v):
    return _U().soft(_need(v)).upper()


def f_lower(i, v):
    return _U().soft(_need(v)).lower()


def f_length(i, v):
    return len(_need(v))


def f_abs(i, v):
    return abs(_need(v))


def f_string(i, v):
    return _U().soft(v)


def f_join(i, v, d=""):
    m = _U()
    if m.is_undef(v):
        return ""
    return m.model_str(d).join(m.model_str(x) for x in v)


def f_first(i, v):
    m = _U()
    for x in _need(v):
        return x
    return m.Undef("first")


def f_last(i, v):
    m = _U()
    xs = list(_need(v))
    return xs[-1] if xs else m.Undef("last")


def f_list(i, v):
    m = _U()
    if m.is_undef(v):
        return []
    return list(v)


def f_sort(i, v, reverse=False):
    return sorted(_need(v), reverse=reverse)


def f_sum(i, v, start=0):
    return sum(_need(v), start)


def f_trim(i, v):
    return _U().soft(_need(v)).strip()


def f_capitalize(i, v):
    return _U().soft(_need(v)).capitalize()


def f_max(i, v):
    m = _U()
    xs = list(_need(v))
    return max(xs) if xs else m.Undef("max")


def f_min(i, v):
    m = _U()
    xs = list(_need(v))
    return min(xs) if xs else m.Undef("min")


def f_int(i, v, default=0):
    m = _U()
    if m.is_undef(v):
        return default
    try:
        if isinstance(v, str):
            return int(v)
        return int(v)
    except (TypeError, ValueError):
        try:
            return int(float(v))
        except (TypeError, ValueError, OverflowError):
            return default


def f_replace(i, v, old, new):
    m = _U()
    return m.model_str(_need(v)).replace(m.model_str(old), m.model_str(new))


def f_reverse_list(i, v):
    v = _need(v)
    if isinstance(v, str):
        return v[::-1]
    return list(reversed(list(v)))


def f_safe(i, v):
    from markupsafe import Markup

    return Markup(_U().soft(v))


def f_truncate(i, v, length=255, killwords=False, end="...", leeway=None):
    """docs: 'Strings that only exceed the length by the tolerance margin given in the fourth
    parameter will not be truncated' (default 5); cut at length (the end sign included) when
    killwords is true, otherwise discard the last word."""
    s = _U().soft(_need(v))
    if leeway is None:
        leeway = 5
    if len(s) <= length + leeway:
        return s
    if killwords:
        return s[:length - len(end)] + end
    return s[:length - len(end)].rsplit(" ", 1)[0] + end


def f_unique(i, v, case_sensitive=False, attribute=None):
    """docs: unique items in the order of their first occurrence; strings compared
    case-insensitively unless case_sensitive."""
    seen = set()
    out = []
    for x in _need(v):
        k = x.lower() if isinstance(x, str) and not case_sensitive else x
        if k not in seen:
            seen.add(k)
            out.append(x)
    return out


def f_attr(i, v, name):
    """docs: 'foo|attr("bar") works like foo.bar just that always an attribute is returned and
    items are not looked up.'"""
    m = _U()
    if m.is_undef(v):
        m.undef_error(v)
    try:
        return getattr(v, name)
    except AttributeError:
        return m.Undef(name)


FILTERS = {
    "default": f_default, "d": f_default, "upper": f_upper, "lower": f_lower,
    "length": f_length, "count": f_length, "abs": f_abs, "string": f_string,
    "join": f_join, "first": f_first, "last": f_last, "list": f_list, "sort": f_sort,
    "sum": f_sum, "trim": f_trim, "capitalize": f_capitalize, "max": f_max, "min": f_min,
    "int": f_int, "replace": f_replace, "safe": f_safe, "truncate": f_truncate, "unique": f_unique, "attr": f_attr,
}


def t_defined(i, v):
    return not _U().is_undef(v)


def t_undefined(i, v):
    return _U().is_undef(v)


def t_none(i, v):
    return v is None


def t_odd(i, v):
    return _need(v) % 2 == 1


def t_even(i, v):
    return _need(v) % 2 == 0


def t_divisibleby(i, v, n):
    return _need(v) % n == 0


def t_string(i, v):
    return isinstance(v, str)


def t_number(i, v):
    return isinstance(v, numbers.Number)


def t_integer(i, v):
    return isinstance(v, int) and v is not True and v is not False


def t_float(i, v):
    return isinstance(v, float)


def t_boolean(i, v):
    return v is True or v is False


def t_mapping(i, v):
    from collections import abc
    return isinstance(v, abc.Mapping)


def t_iterable(i, v):
    try:
        iter(v)
    except TypeError:
        return False
    return True


def t_sequence(i, v):
    try:
        len(v)
        v.__getitem__
    except Exception:
        return False
    return True


def t_callable(i, v):
    return callable(v)


TESTS = {
    "defined": t_defined, "undefined": t_undefined, "none": t_none, "odd": t_odd,
    "even": t_even, "divisibleby": t_divisibleby, "string": t_string, "number": t_number,
    "integer": t_integer, "float": t_float, "boolean": t_boolean, "mapping": t_mapping,
    "iterable": t_iterable, "sequence": t_sequence, "callable": t_callable,
    "true": lambda i, v: v is True, "false": lambda i, v: v is False,
    "eq": lambda i, v, o: v == o, "equalto": lambda i, v, o: v == o, "==": lambda i, v, o: v == o,
    "ne": lambda i, v, o: v != o, "lt": lambda i, v, o: _need(v) < o, "gt": lambda i, v, o: _need(v) > o,
    "le": lambda i, v, o: _need(v) <= o, "ge": lambda i, v, o: _need(v) >= o,
    "in": lambda i, v, seq: v in seq,
    "lower": lambda i, v: str(v).islower(), "upper": lambda i, v: str(v).isupper(),
}
