"""Executable contracts for the string and number filters (property C23).

Written from the docstrings in src/jinja2/filters.py (rendered into
docs/templates.rst "List of Builtin Filters") and the property statement.
Exact Python definitions are used only where the docstring defines the result
exactly (upper, lower, trim, replace, format, center, urlencode); otherwise only
the consequences the docstring/property actually promise are checked (truncate:
length bound, leeway, end marker, word discard; wordwrap: non-whitespace text
preserved in order, width bound when long words may be broken, paragraphs
wrapped separately; indent: only indentation is inserted; int/float: never
raise, clear conversions give the number, clear non-numbers give the default).

check(name, value, args, kwargs, out, info) -> None | (aspect, message)
  out   vt.gen.fcase_c2223.Outcome of the real filter
  info  {"leeway": policies["truncate.leeway"], "newline": env.newline_sequence}
"""
from __future__ import annotations

import math
import re
import urllib.parse
from decimal import Decimal
from fractions import Fraction

from vt.gen.fcase_c2223 import Obj, Sameness

REQ = object()
SIG = {
    "truncate": [("length", 255), ("killwords", False), ("end", "..."), ("leeway", None)],
    "wordwrap": [("width", 79), ("break_long_words", True), ("wrapstring", None),
                 ("break_on_hyphens", True)],
    "indent": [("width", 4), ("first", False), ("blank", False)],
    "center": [("width", 80)],
    "trim": [("chars", None)],
    "replace": [("old", REQ), ("new", REQ), ("count", None)],
    "int": [("default", 0), ("base", 10)],
    "float": [("default", 0.0)],
    "round": [("precision", 0), ("method", "common")],
    "filesizeformat": [("binary", False)],
    "title": [], "capitalize": [], "upper": [], "lower": [], "wordcount": [],
    "striptags": [], "urlencode": [],
}
ALL_FILTERS = sorted(list(SIG) + ["format"])
_S = Sameness(())


def bind(name, args, kwargs):
    sig = SIG[name]
    out = {k: d for k, d in sig}
    if len(args) > len(sig):
        raise TypeError("too many arguments")
    for (k, _), a in zip(sig, args):
        out[k] = a
    for k, a in kwargs.items():
        if k not in out:
            raise TypeError(f"unknown keyword {k}")
        out[k] = a
    return out


def _r(v, n=240):
    s = repr(v)
    return s if len(s) <= n else s[:n] + "..."


def _exact(got, exp, aspect="result"):
    if type(got) is not type(exp) and not (isinstance(got, str) and isinstance(exp, str)):
        return (aspect, f"got {_r(got)} ({type(got).__name__}), definition gives {_r(exp)}")
    if _S.same(got, exp):
        return None
    return (aspect, f"got {_r(got)}, definition gives {_r(exp)}")


def simple_case_char(c):
    """Characters whose case mapping is one-to-one and context free, so that
    'uppercase'/'lowercase' in a docstring is unambiguous."""
    u, lo = c.upper(), c.lower()
    return (len(u) == 1 and len(lo) == 1 and u.lower() == lo and lo.upper() == u
            and c.title() == u and c not in "Σσς" and c.casefold() == lo)


def simple_case(s):
    return all(simple_case_char(c) for c in s)


# ------------------------------------------------------------- truncate
def c_truncate(s, p, got, info):
    length, kill, end, leeway = p["length"], p["killwords"], p["end"], p["leeway"]
    if leeway is None:
        leeway = info["leeway"]
    if not isinstance(got, str):
        return ("type", f"returned {type(got).__name__}")
    if len(s) <= length + leeway:
        # "Strings that only exceed the length by the tolerance margin given in
        # the fourth parameter will not be truncated."
        if got != s:
            return ("leeway" if len(s) > length else "short-unchanged",
                    f"len={len(s)} <= length {length} + leeway {leeway} but the text was "
                    f"changed to {_r(got)}")
        return None
    if not got.endswith(end):
        return ("end-marker", f"truncated text {_r(got)} does not end with {end!r}")
    if len(got) > length:
        return ("length", f"truncated text has {len(got)} characters, length={length}: {_r(got)}")
    body = got[:len(got) - len(end)]
    cut = s[:length - len(end)]
    if kill:
        if body != cut:
            return ("killwords-cut", f"killwords: text not cut at length: {_r(got)}, "
                                     f"expected {_r(cut + end)}")
        return None
    if not cut.startswith(body):
        return ("prefix", f"{_r(body)} is not a prefix of the text cut at length")
    if " " in cut:
        want = cut[:cut.rindex(" ")]
        if body != want:
            return ("last-word", f"should discard exactly the last word: got {_r(got)}, "
                                 f"expected {_r(want + end)}")
    return None


# ------------------------------------------------------------- wordwrap
def _nonws(s):
    return "".join(c for c in s if not c.isspace())


_PLAIN_BREAKS = re.compile(r"\r\n|\r|\n")
_EXOTIC_BREAKS = set("\x0b\x0c\x1c\x1d\x1e\x85\u2028\u2029")


def c_wordwrap(s, p, got, info):
    width, blw, ws = p["width"], p["break_long_words"], p["wrapstring"]
    if ws is None:
        ws = info["newline"]
    if not isinstance(got, str):
        return ("type", f"returned {type(got).__name__}")
    lines = got.split(ws)
    joined = "".join(lines)
    if _nonws(joined) != _nonws(s):
        return ("text-preserved", f"non-whitespace text changed: {_r(_nonws(joined))} vs "
                                  f"{_r(_nonws(s))}")
    if blw:
        for ln in lines:
            if len(ln) > width:
                return ("width", f"line of {len(ln)} characters with width={width} and "
                                 f"break_long_words: {_r(ln)}")
    if not (set(s) & _EXOTIC_BREAKS):
        # "Existing newlines are treated as paragraphs to be wrapped separately."
        paras = [_nonws(x) for x in _PLAIN_BREAKS.split(s)]
        if s and _PLAIN_BREAKS.split(s)[-1] == "" and len(paras) > 1:
            paras.pop()  # a final newline does not open another paragraph
        if len(lines) < len(paras):
            return ("paragraphs", f"{len(paras)} paragraphs wrapped into {len(lines)} lines: "
                                  f"{_r(got)}")
        pi, rem = 0, paras[0] if paras else ""
        for ln in lines:
            t = _nonws(ln)
            if not t:
                continue
            while not rem and pi + 1 < len(paras):
                pi += 1
                rem = paras[pi]
            if not rem.startswith(t):
                return ("paragraphs", f"line {_r(ln)} joins text of two paragraphs: {_r(got)}")
            rem = rem[len(t):]
    return None


# ------------------------------------------------------------- indent
def c_indent(s, p, got, info):
    width, first, blank = p["width"], p["first"], p["blank"]
    ind = width if isinstance(width, str) else " " * width
    if not isinstance(got, str):
        return ("type", f"returned {type(got).__name__}")
    src = s.splitlines() or [""]
    ends_with_break = bool(s) and s.splitlines(True)[-1] != s.splitlines()[-1]
    out = got.split("\n")
    if len(out) == len(src) + 1 and ends_with_break and out[-1] in ("", ind):
        if out[-1] == ind and ind != "" and not blank:
            return ("blank", f"trailing empty line indented without blank=true: {_r(got)}")
        out = out[:-1]
    if len(out) != len(src):
        return ("lines", f"{len(src)} lines became {len(out)}: {_r(got)}")
    if ind == "":
        return None if out == src else ("inserts-only-indentation", f"{_r(got)}")
    for i, (a, b) in enumerate(zip(src, out)):
        if b == a:
            prefixed = False
        elif b == ind + a:
            prefixed = True
        else:
            return ("inserts-only-indentation", f"line {i} {_r(a)} became {_r(b)}")
        has_text = bool(a.strip())
        if i == 0:
            # "The first line ... not indented by default"; first: "Don't skip
            # indenting the first line"
            if has_text or blank:
                want = first
            else:
                want = None if first else False  # blank first line, first=true, blank=false
        elif has_text:
            want = True
        elif a == "":
            want = blank  # "blank: Don't skip indenting empty lines"
        else:
            want = True if blank else None  # whitespace-only: "blank" vs "empty" in the docs
        if want is not None and prefixed != want:
            return ("first" if i == 0 else ("blank" if not has_text else "line-indent"),
                    f"line {i} {_r(a)} -> {_r(b)} (first={first}, blank={blank})")
    return None


# ------------------------------------------------------------- small ones
def c_center(s, p, got, info):
    w = p["width"]
    s = str(s)
    if not isinstance(got, str):
        return ("type", f"returned {type(got).__name__}")
    if len(got) != max(len(s), w):
        return ("width", f"field has {len(got)} characters, width={w}, value has {len(s)}")
    pad = len(got) - len(s)
    for left in {pad // 2, pad - pad // 2}:
        if got == " " * left + s + " " * (pad - left):
            return None
    return ("centered", f"{_r(got)} is not {_r(s)} centred in {w}")


# ------------------------------------------------------------- title / capitalize
# "words will start with uppercase letters, all remaining characters are
# lowercase" / "The first character will be uppercase, all others lowercase".
# For letters with a one-to-one case mapping that is unambiguous.  For the
# others ('\u00df', ligatures, the digraphs U+01C4..U+01CC whose titlecase form is
# not their uppercase form, final sigma, dotted capital I) the statement is
# read per input character, and every reading the words allow is accepted:
#   word start   the uppercase mapping of the character (c.upper()), or - when
#                that mapping has several characters - a form whose first
#                character is an uppercase letter and whose others are lowercase
#                ('\u00df' -> 'SS' or 'Ss');  a titlecase digraph ('\u01c5') is neither
#   word rest    the lowercase mapping; capital sigma may become either small sigma
#   elsewhere    (after a digit, punctuation, a mark that follows no letter: the
#                documentation does not say what a word is) upper, lower or title
# The result must be a concatenation of one accepted form per input character.
_SIGMAS = ("\u03c3", "\u03c2")


def _is_mark(c):
    import unicodedata

    return unicodedata.category(c) in ("Mn", "Mc", "Me")


def _cased(c):
    return c.upper() != c or c.lower() != c


def _lower_forms(c):
    forms = {c.lower()}
    if c.lower() in _SIGMAS:
        forms.update(_SIGMAS)
    return forms


def _start_forms(c):
    forms = {c.upper()}
    t = c.title()
    if len(t) > 1 and t[0].isupper() and t[1:] == t[1:].lower():
        forms.add(t)
    return forms


def _positions(s, only_first):
    """Per character: ('start' | 'rest' | 'free' | 'same', accepted forms)."""
    out = []
    for i, c in enumerate(s):
        if not _cased(c):
            out.append(("same", {c}))
            continue
        if i == 0:
            out.append(("start", _start_forms(c)))
            continue
        if only_first:
            out.append(("rest", _lower_forms(c)))
            continue
        if s[i - 1].isspace():
            out.append(("start", _start_forms(c)))
            continue
        j = i - 1
        while j >= 0 and _is_mark(s[j]):
            j -= 1
        if j >= 0 and s[j].isalpha():
            out.append(("rest", _lower_forms(c)))
        else:
            out.append(("free", _start_forms(c) | _lower_forms(c) | {c.title()}))
    return out


def _match_forms(s, got, only_first):
    """None if ``got`` is a concatenation of accepted forms, else (index of the
    first input character that cannot be matched, its position kind, forms)."""
    pos = _positions(s, only_first)
    reach = {0}
    for i, (kind, forms) in enumerate(pos):
        nxt = set()
        for off in reach:
            for f in forms:
                if got.startswith(f, off):
                    nxt.add(off + len(f))
        if not nxt:
            return i, kind, forms, min(reach)
        reach = nxt
    if len(got) not in reach:
        return len(s), "end", set(), max(reach)
    return None


def _c_cased(s, got, only_first, what):
    if not isinstance(got, str):
        return ("type", f"returned {type(got).__name__}")
    bad = _match_forms(s, got, only_first)
    if bad is None:
        return None
    i, kind, forms, off = bad
    if kind == "end":
        return ("result", f"extra text {_r(got[off:])} after the last character: {_r(got)}")
    c = s[i]
    seen = got[off:off + max(len(f) for f in forms)]
    if kind == "start":
        aspect = "word-start" if not only_first else "first-char"
        if c.title() != c.upper() and got.startswith(c.title(), off):
            # the titlecase mapping (str.title / str.capitalize) instead of the uppercase one
            aspect += ":titlecase-form-not-uppercase"
        return (aspect, f"{what} {c!r} (U+{ord(c):04X}) at {i} became {_r(seen)}, its uppercase "
                        f"form is {c.upper()!r}: {_r(got)}")
    if kind == "rest":
        return ("word-rest" if not only_first else "rest",
                f"character {c!r} (U+{ord(c):04X}) at {i} after the {what} became {_r(seen)}, its "
                f"lowercase form is {c.lower()!r}: {_r(got)}")
    return ("result", f"character {c!r} at {i} became {_r(seen)}: {_r(got)}")


def c_title(s, p, got, info):
    return _c_cased(s, got, False, "word start")


def c_capitalize(s, p, got, info):
    return _c_cased(s, got, True, "first character")


def c_wordcount(s, p, got, info):
    if type(got) is not int:
        return ("type", f"returned {_r(got)}")
    toks = s.split()
    with_alnum = sum(1 for t in toks if any(c.isalnum() for c in t))
    n_word_chars = sum(1 for c in s if c.isalnum() or c == "_")
    if all(t.isascii() and t.isalnum() for t in toks):
        if got != len(toks):
            return ("count", f"{len(toks)} plain words, counted {got}")
        return None
    if got < with_alnum or got > n_word_chars:
        return ("count", f"counted {got} words; {with_alnum} whitespace separated tokens "
                         f"contain letters/digits, {n_word_chars} word characters in total")
    return None


_COMMENT = re.compile(r"<!--.*?-->", re.S)
_TAG = re.compile(r"<[^<>]*>")


def c_striptags(s, p, got, info):
    if not isinstance(got, str):
        return ("type", f"returned {type(got).__name__}")
    if "&" in s:
        return None
    t = _TAG.sub("", _COMMENT.sub("", s))
    if "<" in t or ">" in t:
        # not tag-structured text: only "adjacent whitespace replaced by one space"
        if re.search(r"\s\s", got) or re.search(r"[^\S ]", got):
            return ("whitespace", f"adjacent whitespace left in {_r(got)}")
        return None
    exp = " ".join(t.split())
    if got.strip() != exp:
        return ("result", f"got {_r(got)}, tags stripped and whitespace collapsed gives {_r(exp)}")
    if re.search(r"\s\s", got):
        return ("whitespace", f"adjacent whitespace left in {_r(got)}")
    return None


def c_urlencode(v, p, got, info):
    if not isinstance(got, str):
        return ("type", f"returned {type(got).__name__}")
    if isinstance(v, str):
        exp = urllib.parse.quote(v)  # "/" is not quoted, UTF-8
        if got != exp:
            return ("quote", f"got {_r(got)}, urllib.parse.quote gives {_r(exp)}")
        if urllib.parse.unquote(got) != v:
            return ("roundtrip", f"{_r(got)} does not unquote to the value")
        return None
    pairs = [tuple(x) for x in (v.items() if isinstance(v, dict) else v)]
    exp = urllib.parse.urlencode(pairs)
    if got != exp:
        return ("query", f"got {_r(got)}, urllib.parse.urlencode gives {_r(exp)}")
    return None


_FS = re.compile(r"^(\d+) (Bytes?)$|^(\d+\.\d) ([kKMGTPEZY]i?B)$")
_DEC = ["kB", "MB", "GB", "TB", "PB", "EB", "ZB", "YB"]
_BIN = ["KiB", "MiB", "GiB", "TiB", "PiB", "EiB", "ZiB", "YiB"]


def c_filesizeformat(v, p, got, info):
    binary = bool(p["binary"])
    x = float(v)
    base = 1024 if binary else 1000
    if not isinstance(got, str):
        return ("type", f"returned {type(got).__name__}")
    m = _FS.match(got)
    if not m:
        return ("format", f"{_r(got)} is not '<n> Bytes' or '<n.n> <prefix>B'")
    if m.group(2):
        n = int(m.group(1))
        if not x < base:
            return ("unit", f"{x} formatted in Bytes: {_r(got)}")
        if abs(n - x) >= 1:
            return ("value", f"{x} formatted as {_r(got)}")
        if x == 1 and got != "1 Byte":
            return ("singular", f"1 formatted as {_r(got)}")
        if m.group(2) == "Byte" and n != 1:
            return ("singular", f"{x} formatted as {_r(got)}")
        return None
    mant, unit = float(m.group(3)), m.group(4)
    units = _BIN if binary else _DEC
    if unit not in units:
        return ("prefix", f"binary={binary} but unit {unit}: {_r(got)}")
    i = units.index(unit)
    scale = float(base) ** (i + 1)
    if abs(mant * scale - x) > 0.05 * scale * (1 + 1e-9) + abs(x) * 1e-12:
        return ("value", f"{x} formatted as {_r(got)}")
    if x < scale * (1 - 1e-9):
        return ("unit", f"{x} is below one {unit}: {_r(got)}")
    if i < len(units) - 1 and x >= scale * base * (1 + 1e-9):
        return ("unit", f"{x} should use a larger prefix than {unit}: {_r(got)}")
    return None


def _round_candidates(v, prec):
    """(floor, ceil) multiples of 10**-prec around the number, exactly, under
    the two readings of a float subject: its exact binary value and the decimal
    it is written as (``repr``).  Integers have one reading."""
    step = Fraction(10) ** (-prec)
    readings = [Fraction(v)]
    if isinstance(v, float):
        readings.append(Fraction(Decimal(repr(v))))
    out = []
    for x in readings:
        q = x / step
        out.append((math.floor(q) * step, math.ceil(q) * step))
    return step, out


def _close(got, target, step):
    return abs(Fraction(got) - target) <= abs(target) / 10 ** 12 + step / 10 ** 9


def c_round(v, p, got, info):
    prec, method = p["precision"], p["method"]
    if isinstance(got, bool) or not isinstance(got, (int, float)):
        return ("type", f"returned {_r(got)}")
    step, cands = _round_candidates(v, prec)
    if method == "ceil":
        # "'ceil' always rounds up"
        if not any(_close(got, ce, step) for _, ce in cands):
            return ("ceil", f"{v!r}|round({prec}, 'ceil') gave {got!r}, the next multiple of "
                            f"10**{-prec} upwards is {float(cands[0][1])!r}")
    elif method == "floor":
        if not any(_close(got, fl, step) for fl, _ in cands):
            return ("floor", f"{v!r}|round({prec}, 'floor') gave {got!r}, the next multiple of "
                             f"10**{-prec} downwards is {float(cands[0][0])!r}")
    else:
        # "'common' rounds either up or down": one of the two neighbours, and
        # the nearer one (either may be taken on a tie)
        if not any(_close(got, x, step) for pair in cands for x in pair):
            return ("precision", f"{v!r}|round({prec}) gave {got!r}, not a neighbouring multiple "
                                 f"of 10**{-prec}")
        if abs(Fraction(got) - Fraction(v)) > step / 2 + step / 10 ** 6 + abs(Fraction(v)) / 10 ** 12:
            return ("common", f"{v!r}|round({prec}) gave {got!r}, not the nearest multiple")
    if not isinstance(got, float):
        # "Note that even if rounded to 0 precision, a float is returned.  If you
        # need a real integer, pipe it through int"
        return ("returns-float:" + type(v).__name__ + "-input-" + method,
                f"{v!r}|round({prec}, {method!r}) returned {type(got).__name__} {got!r}; the "
                f"documentation says a float is returned")
    return None


# ------------------------------------------------------------- int / float
_INT10 = re.compile(r"^[+-]?[0-9]+$")
_DECFLOAT = re.compile(r"^[+-]?[0-9]+\.[0-9]+$")
_PREFIXED = {2: re.compile(r"^[+-]?0[bB][01]+$"), 8: re.compile(r"^[+-]?0[oO][0-7]+$"),
             16: re.compile(r"^[+-]?0[xX][0-9a-fA-F]+$")}
_DIGITS = {2: re.compile(r"^[+-]?[01]+$"), 8: re.compile(r"^[+-]?[0-7]+$"),
           10: _INT10, 16: re.compile(r"^[+-]?[0-9a-fA-F]+$")}
_FLOATLIT = re.compile(r"^[+-]?([0-9]+(\.[0-9]*)?|\.[0-9]+)([eE][+-]?[0-9]+)?$")
# strings that are numbers in no base <= 16 and in no float spelling
NON_NUMERIC = ["", " ", "xyz", "g!", "1,5", "--1", ".", "q1", "one", "1 2", "+", "é"]


def clearly_not_a_number(v):
    if v is None or isinstance(v, (list, tuple, dict, set, frozenset, Obj)):
        return True
    return isinstance(v, str) and v in NON_NUMERIC


def c_int(v, p, out, info):
    default, base = p["default"], p["base"]
    if not out.ok:
        # "If the conversion doesn't work it will return 0 [the default]"
        return ("raises:" + out.exc_name(), f"{_r(v, 60)}|int raised instead of returning the "
                                            f"default: {out.describe()}")
    got = out.value
    exp = REQ
    if isinstance(v, bool):
        exp = int(v)
    elif isinstance(v, int):
        exp = v
    elif isinstance(v, float):
        if math.isfinite(v):
            exp = math.trunc(v)
    elif isinstance(v, str) and v.isascii() and len(v) < 40:
        if _DIGITS[base].match(v):
            exp = int(v, base)
        elif base in _PREFIXED and _PREFIXED[base].match(v):
            exp = int(v, base)
        elif _DECFLOAT.match(v):
            # "42.23"|int gives 42; "The base is ignored for decimal numbers"
            exp = math.trunc(float(v))
    if exp is not REQ:
        if type(got) is not int or got != exp:
            return ("value", f"{_r(v, 60)}|int({default!r}, {base}) gave {_r(got)}, expected {exp}")
        return None
    if clearly_not_a_number(v):
        if not _S.same(got, default):
            return ("default", f"{_r(v, 60)}|int({default!r}, {base}) gave {_r(got)}, expected the "
                               f"default")
        return None
    if type(got) is not int and not _S.same(got, default):
        return ("type", f"{_r(v, 60)}|int({default!r}, {base}) gave {_r(got)}: neither an int nor "
                        f"the default")
    return None


def c_float(v, p, out, info):
    default = p["default"]
    if not out.ok:
        return ("raises:" + out.exc_name(), f"{_r(v, 60)}|float raised instead of returning the "
                                            f"default: {out.describe()}")
    got = out.value
    exp = REQ
    if isinstance(v, float):
        exp = v
    elif isinstance(v, (bool, int)):
        if abs(v) < 2 ** 1000:
            exp = float(v)
    elif isinstance(v, str) and len(v) < 40 and _FLOATLIT.match(v):
        exp = float(v)
    if exp is not REQ:
        if type(got) is not float or not _S.same(got, exp):
            return ("value", f"{_r(v, 60)}|float({default!r}) gave {_r(got)}, expected {exp!r}")
        return None
    if clearly_not_a_number(v):
        if not _S.same(got, default):
            return ("default", f"{_r(v, 60)}|float({default!r}) gave {_r(got)}, expected the "
                               f"default")
        return None
    if type(got) is not float and not _S.same(got, default):
        return ("type", f"{_r(v, 60)}|float({default!r}) gave {_r(got)}: neither a float nor the "
                        f"default")
    return None


# ------------------------------------------------------------- subject types
# The subject of a string filter need not be a plain str.  Kinds the harness
# builds around a generated text (vt.gen.fcase_c2223):
#   strsub    a str subclass                      -> behaves as the text
#   markup    markupsafe.Markup(text)             -> a str subclass whose operators escape
#                                                    plain-str operands; with operands free of
#                                                    & < > ' " it behaves as the text
#   stronly   object with only __str__            -> "a value": its text is str(value), for
#   lazy      lazy-string proxy (no __html__)        the filters documented on "a value"
#   html      object with __html__() = the text and an unrelated __str__
#   htmlonly  object with only __html__() = the text
# For the last two the documentation defines which form a filter works on only
# for striptags, the one filter of this property that is defined on MARKUP
# ("Strip SGML/XML tags", signature ``str | HasHTML``): the markup form of a
# value implementing the __html__ protocol is value.__html__().  For every
# other filter the choice between str(value) and value.__html__() is not
# documented with autoescape off, and only agreement of the drives is checked.
SUBJECT_KINDS = ["strsub", "markup", "stronly", "lazy", "html", "htmlonly"]
# docstrings that speak of "a value" / "the value" (Convert a value to uppercase,
# Capitalize a value, a titlecased version of the value, Centers the value, Return a
# copy of the value with ...): the text of a value that is not a string is str(value).
# trim, wordcount, format, truncate, indent, wordwrap, urlencode, striptags speak of
# strings (striptags: of str | HasHTML) and promise nothing for other objects.
_VALUE_FILTERS = {"upper", "lower", "capitalize", "title", "center", "replace"}
# the random subject-type cases rotate over the filters that take text (round's
# subject is always a number); striptags, the filter defined on markup, twice
TYPED_ROTATION = sorted(set(SIG) - {"round"}) + ["format", "striptags"]
_HTML_SPECIALS = set("&<>'\"")


def _has_specials(args, kwargs):
    return any(isinstance(a, str) and (set(a) & _HTML_SPECIALS)
               for a in list(args) + list(kwargs.values()))


def typed_mode(name, kind, args, kwargs):
    """'text': the contract of ``name`` on the generated text applies;
    'object': the int/float contract for a value that is no number applies;
    None: the documentation is silent, only the drives have to agree."""
    if name in ("int", "float"):
        return "text" if kind in ("strsub", "markup") else "object"
    if name in ("round", "filesizeformat"):
        return "text" if kind == "strsub" else None
    if kind == "strsub":
        return "text"
    if kind == "markup":
        if name == "format" or _has_specials(args, kwargs):
            return None     # escaping of plain operands: property C24
        return "text"
    if kind in ("html", "htmlonly"):
        return "text" if name == "striptags" else None
    if name in _VALUE_FILTERS:     # stronly, lazy
        return "text"
    return None


# ------------------------------------------------------------- dispatch
def check(name, value, args, kwargs, out, info):
    if name == "format":
        if not out.ok:
            return ("raises:" + out.exc_name(), out.describe())
        return _exact(out.value, str(value) % (kwargs or tuple(args)))
    p = bind(name, args, kwargs)
    if name == "int":
        return c_int(value, p, out, info)
    if name == "float":
        return c_float(value, p, out, info)
    if not out.ok:
        return ("raises:" + out.exc_name(), out.describe())
    got = out.value
    if name == "truncate":
        return c_truncate(value, p, got, info)
    if name == "wordwrap":
        return c_wordwrap(value, p, got, info)
    if name == "indent":
        return c_indent(value, p, got, info)
    if name == "center":
        return c_center(value, p, got, info)
    if name == "trim":
        return _exact(got, str(value).strip(p["chars"]))
    if name == "upper":
        return _exact(got, str(value).upper())
    if name == "lower":
        return _exact(got, str(value).lower())
    if name == "capitalize":
        return c_capitalize(str(value), p, got, info)
    if name == "title":
        return c_title(str(value), p, got, info)
    if name == "replace":
        s = str(value)
        if p["count"] is None:
            return _exact(got, s.replace(str(p["old"]), str(p["new"])))
        return _exact(got, s.replace(str(p["old"]), str(p["new"]), p["count"]))
    if name == "wordcount":
        return c_wordcount(str(value), p, got, info)
    if name == "striptags":
        return c_striptags(value, p, got, info)
    if name == "urlencode":
        return c_urlencode(value, p, got, info)
    if name == "filesizeformat":
        return c_filesizeformat(value, p, got, info)
    if name == "round":
        return c_round(value, p, got, info)
    raise AssertionError(name)
