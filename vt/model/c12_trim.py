"""Executable reference model of Jinja's whitespace control (C12, shared by C39).

Written from the DOCUMENTATION, not from the lexer:

* docs/templates.rst "Whitespace Control":
    - default: "a single trailing newline is stripped if present; other
      whitespace (spaces, tabs, newlines etc.) is returned unchanged";
    - ``trim_blocks``: "the first newline after a template tag is removed
      automatically (like in PHP)"  (api.rst: "the first newline after a block
      is removed (block, not variable tag!)");
    - ``lstrip_blocks``: "strip tabs and spaces from the beginning of a line to
      the start of a block. (Nothing will be stripped if there are other
      characters before the start of the block.)";
    - ``{%+``: "manually disable the lstrip_blocks behavior";
      ``+%}``: "manually disable the trim_blocks behavior";
    - ``-`` at "the start or end of a block, a comment, or a variable
      expression: the whitespaces before or after that block will be removed";
* docs/templates.rst "Escaping": "Minus sign at the end of {% raw -%} tag
  cleans all the spaces and newlines preceding the first character of your raw
  data";
* docs/api.rst: ``keep_trailing_newline``, ``newline_sequence``;
* the property statement: "the body of a raw block stays verbatim" (so
  trim_blocks does not act after ``{% raw %}``), "variable tags are never
  affected by the automatic options".
* whitespace class: the docs never define "whitespace" (they enumerate "spaces,
  tabs, newlines etc."); the model uses the Unicode White_Space characters for
  every rule -- what '-' removes on a side, and (minus line breaks) what may
  fill the line before a tag for lstrip_blocks.  For space/tab/line breaks this
  coincides with the docs' "tabs and spaces"; C12 (rendered output) and C39
  (tokens) both also generate the other characters through vt.gen.c39_ws
  (reasoning in vt/checks/c39.py ASSUMPTIONS).

A *skeleton* is a strictly alternating list

    [text0, tag1, text1, tag2, ..., tagN, textN]

where every ``text`` is a str (may be empty) and every tag is a dict

    {"k": kind, "l": lmod, "r": rmod, "in": inner[, "out": rendered]}

with kind in block | comment | var | raw_open | raw_close, lmod/rmod in
'' | '-' | '+', ``inner`` the text between the (modifier-carrying) delimiters
and ``out`` what the tag renders (only var tags render something).  The text
between a raw_open and the following raw_close is the raw body.

``predict(...)`` returns the expected rendered text and, in coordinates of the
*normalised* source (line breaks -> "\\n", one trailing newline dropped unless
keep_trailing_newline), the exact whitespace spans the rules remove.
"""
from __future__ import annotations

import re

NL_RE = re.compile(r"\r\n|\r|\n")
#: "whitespace" = the characters with the Unicode White_Space property (Unicode
#: Character Database, PropList.txt) -- an engine-independent definition.  '-' is
#: documented to remove "the whitespaces" before/after the tag without restriction.
#: The c12_skel generators only ever emit space/tab/LF/CR/CRLF; vt.gen.c39_ws adds the others
#: for both C12 and C39.
WS = ("\t\n\x0b\x0c\r \x85\xa0\u1680" + "".join(chr(c) for c in range(0x2000, 0x200B))
      + "\u2028\u2029\u202f\u205f\u3000")
#: line breaks of a template source: "\n", "\r\n", "\r" only (Lexer.tokeniter: "Only \n,
#: \r\n and \r are treated as line breaks"); after normalisation only "\n" remains
LINEBREAKS = "\n\r"
#: what lstrip_blocks removes: the whitespace between the start of a line and the tag.  The
#: docs name "tabs and spaces"; the property statement says "the whitespace".  ONE whitespace
#: class is used for all rules (see vt/checks/c39.py ASSUMPTIONS for the reasoning); for the
#: space/tab-only sources of C12 this is exactly "tabs and spaces".
BLANK = "".join(c for c in WS if c not in LINEBREAKS)
#: whitespace other than space, tab and line breaks (form feed, vertical tab, NEL, NBSP, em
#: space, line separator, ideographic space, ...)
EXOTIC = frozenset(WS) - frozenset(" \t\n\r")


def has_exotic(s: str) -> bool:
    return not EXOTIC.isdisjoint(s)


DEFAULT_DELIMS = {"bs": "{%", "be": "%}", "vs": "{{", "ve": "}}", "cs": "{#", "ce": "#}"}

#: tags after which trim_blocks removes a directly following newline
TRIM_AFTER = ("block", "comment", "raw_close")
#: tags before which lstrip_blocks removes blank line starts
LSTRIP_BEFORE = ("block", "comment", "raw_open", "raw_close")

ALLOWED_MODS = {
    # (left modifiers, right modifiers) the documented syntax allows
    "block": (("", "-", "+"), ("", "-", "+")),
    "comment": (("", "-", "+"), ("", "-", "+")),
    "var": (("", "-"), ("", "-")),            # '+' on variables is undocumented
    "raw_open": (("", "-", "+"), ("", "-")),   # '{% raw +%}' is not valid syntax
    "raw_close": (("", "-", "+"), ("", "-", "+")),
}


def norm_nl(s: str) -> str:
    return NL_RE.sub("\n", s)


def tag_source(tag, d=DEFAULT_DELIMS) -> str:
    k = tag["k"]
    if k == "comment":
        a, b = d["cs"], d["ce"]
    elif k == "var":
        a, b = d["vs"], d["ve"]
    else:
        a, b = d["bs"], d["be"]
    return a + tag["l"] + tag["in"] + tag["r"] + b


def validate(skel) -> None:
    """Structural sanity of a skeleton (generator bugs surface here, not as
    violations)."""
    assert len(skel) % 2 == 1
    open_raw = False
    for i, it in enumerate(skel):
        if i % 2 == 0:
            assert isinstance(it, str), (i, it)
        else:
            k = it["k"]
            ls, rs = ALLOWED_MODS[k]
            assert it["l"] in ls and it["r"] in rs, it
            if open_raw:
                assert k == "raw_close", "raw_open must be followed by raw_close"
                open_raw = False
            else:
                assert k != "raw_close"
                open_raw = k == "raw_open"
    assert not open_raw


def build(skel, d=DEFAULT_DELIMS) -> str:
    return "".join(it if i % 2 == 0 else tag_source(it, d) for i, it in enumerate(skel))


def run_class(run: str, at_start: bool) -> tuple:
    """Rule-relevant features of a (normalised) text run; used for coverage
    keys only."""
    lead = len(run) - len(run.lstrip(WS))
    i = run.rfind("\n") + 1
    tail = run[i:]
    return (
        at_start,
        run == "",
        run.startswith("\n"),
        "\n" in run[:lead],
        lead == len(run),
        i > 0,
        "" if tail == "" else ("blank" if tail.strip(BLANK) == "" else "text"),
        "\t" in run,
        has_exotic(run),
    )


class Prediction:
    __slots__ = ("source", "norm", "pieces", "removed", "runs", "gaps", "rendered",
                 "nontrivial", "removed_chars")

    def removed_spans(self):
        return [(s, e) for s, e, _ in self.removed]

    def line_of(self, off: int) -> int:
        return 1 + self.norm.count("\n", 0, off)


def trim_run(run, A, B, trim_blocks, lstrip_blocks):
    """Apply the documented rules to one text run lying between tag A (left
    neighbour or None = start of source) and tag B (right neighbour or None =
    end of source).  Returns (left_cut, right_keep, left_rule, right_rule):
    run[left_cut:right_keep] survives."""
    n = len(run)
    a, rl = 0, None
    if A is not None:
        if A["r"] == "-":
            # '-' removes all whitespace adjacent to that side of the tag
            a = n - len(run.lstrip(WS))
            rl = "minus"
        elif trim_blocks and A["k"] in TRIM_AFTER:
            # first newline directly after a block/comment/endraw tag
            if run.startswith("\n"):
                if A["r"] == "+":
                    rl = "plus-cancels-trim"
                else:
                    a, rl = 1, "trim_blocks"
    b, rr = n, None
    if B is not None:
        if B["l"] == "-":
            b = len(run.rstrip(WS))
            rr = "minus"
        elif lstrip_blocks and B["k"] in LSTRIP_BEFORE:
            i = run.rfind("\n") + 1
            # the source line of B starts inside this run (i > 0) or the run is
            # the very beginning of the source; otherwise tag A precedes B on
            # the same line and "nothing will be stripped".
            if i > 0 or A is None:
                tail = run[i:]
                if tail and tail.strip(BLANK) == "":
                    if B["l"] == "+":
                        rr = "plus-cancels-lstrip"
                    else:
                        b, rr = i, "lstrip_blocks"
    if b < a:
        b = a
    return a, b, rl, rr


def predict(skel, trim_blocks=False, lstrip_blocks=False, keep_trailing_newline=False,
            newline_sequence="\n", d=DEFAULT_DELIMS) -> Prediction:
    validate(skel)
    p = Prediction()
    p.source = build(skel, d)
    pieces_src = [it if i % 2 == 0 else tag_source(it, d) for i, it in enumerate(skel)]
    pieces = [norm_nl(s) for s in pieces_src]
    # pieces never split a "\r\n": tags start and end with delimiter characters
    assert "".join(pieces) == norm_nl(p.source)
    if not keep_trailing_newline and "".join(pieces).endswith("\n"):
        # "a single trailing newline is stripped if present" (of the template)
        j = len(pieces) - 1
        while pieces[j] == "":
            j -= 1
        assert j % 2 == 0, "a tag cannot end in a line break"
        pieces[j] = pieces[j][:-1]
    p.norm = "".join(pieces)
    p.pieces = []
    p.removed = []
    p.runs = []
    p.gaps = []
    out = []
    off = 0
    nontrivial = False
    nrem = 0
    for i, s in enumerate(pieces):
        if i % 2 == 1:
            tag = skel[i]
            o = tag.get("out", "") if tag["k"] == "var" else ""
            p.pieces.append({"type": "tag", "k": tag["k"], "start": off, "end": off + len(s),
                             "outlen": len(o)})
            out.append(o)
            off += len(s)
            continue
        A = skel[i - 1] if i > 0 else None
        B = skel[i + 1] if i + 1 < len(skel) else None
        a, b, rl, rr = trim_run(s, A, B, trim_blocks, lstrip_blocks)
        if a > 0:
            p.removed.append((off, off + a, rl))
        if b < len(s):
            p.removed.append((off + b, off + len(s), rr))
        nrem += a + (len(s) - b)
        if rl is not None or rr is not None:
            nontrivial = True
        kept = s[a:b]
        p.runs.append(kept)
        p.gaps.append({
            "A": None if A is None else (A["k"], A["r"]),
            "B": None if B is None else (B["k"], B["l"]),
            "run": s, "kept": kept, "rl": rl, "rr": rr, "start": off, "a": a, "b": b,
            "raw_body": bool(A is not None and A["k"] == "raw_open"),
        })
        p.pieces.append({"type": "text", "start": off, "end": off + len(s)})
        out.append(kept)
        off += len(s)
    p.nontrivial = nontrivial
    p.removed_chars = nrem
    rendered = "".join(out)
    if newline_sequence != "\n":
        rendered = rendered.replace("\n", newline_sequence)
    p.rendered = rendered
    return p


def first_diverging_gap(p: Prediction, exp: str, got: str, with_var_out=True) -> int:
    """Index (into p.gaps) of the text run in which `got` first departs from
    the expected string `exp` (the concatenation of the kept runs, with the
    variable outputs in between when with_var_out)."""
    cp = 0
    n = min(len(exp), len(got))
    while cp < n and exp[cp] == got[cp]:
        cp += 1
    off = 0
    ti = 0
    last = 0
    for pc in p.pieces:
        if pc["type"] == "text":
            k = len(p.gaps[ti]["kept"])
            if off <= cp <= off + k:
                return ti
            off += k
            last = ti
            ti += 1
        elif with_var_out:
            off += pc["outlen"]
    return last


def tagname(t, none="start") -> str:
    return none if t is None else f"{t[0]}[{t[1]}]"


def divergence_key(p: Prediction, exp: str, got: str, tb, ls, with_var_out=True):
    """Mechanism key for a mismatch: direction + settings + the neighbouring
    tags (kind, facing modifier) of the first diverging text run + the rules
    the model applied there."""
    gi = first_diverging_gap(p, exp, got, with_var_out)
    g = p.gaps[gi]
    direction = "under-strip" if len(got) > len(exp) else (
        "over-strip" if len(got) < len(exp) else "differs")
    key = (f"{direction}:tb={int(bool(tb))},ls={int(bool(ls))}:{tagname(g['A'], 'start')}>"
           f"{tagname(g['B'], 'end')}:model({g['rl'] or '-'},{g['rr'] or '-'})")
    return key, g


def nonws_of_texts(skel) -> str:
    """Independent sub-oracle input: the non-whitespace characters of all text
    runs (and raw bodies, and what the variable tags print), in order."""
    out = []
    for i, it in enumerate(skel):
        if i % 2 == 0:
            out.append("".join(it.split()))
        elif it["k"] == "var":
            out.append("".join(it.get("out", "").split()))
    return "".join(out)


# --------------------------------------------------------------------------
# enumeration helpers shared by the C12 and C39 generators

def tag_sequences(n, kinds=("set", "cmt", "var", "if", "endif", "raw", "endraw")):
    """All valid flat sequences of n tag types: if/endif balanced and nested,
    raw immediately followed by endraw."""
    out = []

    def rec(seq, depth):
        if len(seq) == n:
            if depth == 0 and (not seq or seq[-1] != "raw"):
                out.append(tuple(seq))
            return
        if seq and seq[-1] == "raw":
            rec(seq + ["endraw"], depth)
            return
        for k in kinds:
            if k == "endraw":
                continue
            if k == "endif":
                if depth > 0:
                    rec(seq + [k], depth - 1)
            elif k == "if":
                if len(seq) + 1 + depth + 1 <= n:
                    rec(seq + [k], depth + 1)
            elif k == "raw":
                if len(seq) + 2 + depth <= n:
                    rec(seq + [k], depth)
            else:
                if len(seq) + 1 + depth <= n:
                    rec(seq + [k], depth)

    rec([], 0)
    return out


KIND_OF = {"set": "block", "if": "block", "endif": "block", "cmt": "comment",
           "var": "var", "raw": "raw_open", "endraw": "raw_close"}
INNER_OF = {"set": " set x = 1 ", "if": " if true ", "endif": " endif ", "cmt": " c ",
            "var": " 'V' ", "raw": " raw ", "endraw": " endraw "}


def mod_choices(ttype):
    ls, rs = ALLOWED_MODS[KIND_OF[ttype]]
    return [(l, r) for l in ls for r in rs]


def make_tag(ttype, l, r, inner=None, out=None):
    t = {"k": KIND_OF[ttype], "l": l, "r": r, "in": INNER_OF[ttype] if inner is None else inner}
    if t["k"] == "var":
        t["out"] = "V" if out is None else out
    return t
