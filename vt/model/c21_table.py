"""C21 reference table: what each undefined type is documented to do for each
operation.  Transcribed from the class docstrings of Undefined /
ChainableUndefined / DebugUndefined / StrictUndefined / make_logging_undefined,
docs/api.rst ("Undefined Types", Environment.undefined), docs/templates.rst
("Variables": "evaluate to an empty string if printed or iterated over, and to
fail for every other operation"), the `defined` / `undefined` tests, the
`default` filter docstring and CHANGES.rst (``in`` on Undefined is not strict;
Undefined is iterable in async environments; copy/pickle protocol works).

Outcome codes
  ("err",)              must raise the undefined's exception (UndefinedError, or
                        the `exc` given to Environment.undefined) naming the
                        missing variable/attribute (or equal to the hint)
  ("val", pred, arg)    must succeed and satisfy predicate `pred`
  ("weak", pred, arg)   documentation is imprecise ("any other operation will
                        raise") while the statement lists the operation: accept
                        either ("err",) or a success satisfying `pred`
  ("chain",)            must return an undefined of the same class whose own
                        failures still name the original variable
  ("equiv",)            must return an equivalent undefined (same class, same
                        observable behaviour)
  ("attrerr",)          must raise AttributeError (dunder protocol probing:
                        CHANGES 3.1.5 "Fix dunder protocol (copy/pickle/etc)
                        interaction with Undefined objects"; hasattr() is False)

Attribute names (attribute access section)
  "access to non-dunder attributes" fails with UndefinedError (chainable:
  returns a chainable undefined); only *dunder* names - two leading AND two
  trailing underscores around a non-empty stem - are answered with
  AttributeError so that Python's protocol probing keeps working.  The shape of
  the name decides, nothing else: x, _x, __x, __x_y, __x_, x__, _x_, _x__ are all
  ordinary attributes.  Names made of underscores only, or with three or more
  underscores on a side that has a dunder-like other side, are ambiguous and not
  in the table.
"""
from __future__ import annotations

BASES = ("Undefined", "ChainableUndefined", "DebugUndefined", "StrictUndefined")

ARITH = ("add", "sub", "mul", "truediv", "floordiv", "mod", "pow")
ORDER = ("lt", "le", "gt", "ge")

ERR = ("err",)


def expect(base: str, op: str, operand_is_undefined: bool = False):
    """Expected outcome for `op` on an undefined whose documented behaviour is
    that of `base` (logging variants behave like their base)."""
    strict = base == "StrictUndefined"
    # ---- operations that fail for every type --------------------------------
    if op in ("int", "float", "complex", "neg", "pos", "call", "call_args"):
        return ERR
    root = op[1:] if op.startswith("r") and op[1:] in ARITH + ORDER else op
    if root in ARITH or root in ORDER:
        return ERR
    # ---- attribute / item access --------------------------------------------
    if op in ("getattr", "getitem_str", "getitem_int"):
        return ("chain",) if base == "ChainableUndefined" else ERR
    # ---- always allowed -------------------------------------------------------
    if op == "test_defined":
        return ("val", "is", False)
    if op in ("test_undefined", "is_undefined"):
        return ("val", "is", True)
    if op in ("default", "default_true"):
        return ("val", "eq", "DFLT")
    if op in ("copy", "deepcopy", "pickle"):
        return ("equiv",)
    # ---- strict: nothing else -------------------------------------------------
    if strict:
        if op in ("str", "format", "bool", "not", "iter", "aiter", "len", "hash", "eq", "ne",
                  "req", "rne", "contains", "in_list", "in_tuple", "in_set", "in_dict", "eq_self",
                  "concat", "eq_in_dict_agree"):
            return ERR
        raise KeyError(op)
    # ---- printable / iterable / boolean --------------------------------------
    if op in ("str", "format"):
        return ("val", "debugstr", None) if base == "DebugUndefined" else ("val", "eq", "")
    if op == "concat":      # template `~`: "converts all operands into strings"
        return ("val", "concat", None)
    if op == "bool":
        return ("val", "is", False)
    if op == "not":
        return ("val", "is", True)
    if op in ("iter", "aiter"):
        return ("val", "eq", [])
    if op == "contains":    # x in undefined: CHANGES 3.0.1 - not strict; nothing to find
        return ("val", "is", False)
    # ---- imprecisely documented: len / == / hash ------------------------------
    if op == "len":
        return ("weak", "eq", 0)
    if op == "hash":
        return ("weak", "isint", None)
    if op in ("eq", "req"):
        return ("weak", "isbool", None) if operand_is_undefined else ("weak", "is", False)
    if op in ("ne", "rne"):
        return ("weak", "isbool", None) if operand_is_undefined else ("weak", "is", True)
    if op == "eq_self":
        return ("weak", "is", True)
    if op in ("in_list", "in_tuple", "in_set", "in_dict"):
        return ("weak", "isbool", None) if operand_is_undefined else ("weak", "is", False)
    if op == "eq_in_dict_agree":
        # (u == x) == (u in {x: 1}): whatever == answers, hashing must be consistent with it
        # (Python data model: objects that compare equal have the same hash; CHANGES 2.6
        # "support for properly hashing undefined objects") - so a dict finds u under the key
        # x exactly when u == x
        return ("weak", "is", True)
    raise KeyError(op)


# attribute names of every underscore shape; (shape label, name)
ATTR_NAMES = (
    ("x", "x"), ("x", "some_attr"), ("_x", "_x"), ("_x", "_private"),
    ("__x", "__x"), ("__x", "__foo"), ("__x_y", "__x_y"), ("__x_", "__a_"),
    ("__x_", "__class_"), ("___x", "___x"), ("x_", "x_"), ("x__", "x__"), ("x__", "foo__"),
    ("_x_", "_x_"), ("_x__", "_x__"), ("x__y", "x__y"),
    ("dunder", "__x__"), ("dunder", "__nosuch_attr__"), ("dunder", "__x_y__"),
)

# ways an attribute of the undefined is accessed
ATTR_WAYS_PY = ("py_getattr", "py_hasattr", "env_getattr", "attr_filter")
ATTR_WAYS_TMPL = ("tmpl_dot", "tmpl_attr_filter", "tmpl_attr_filter_var")


def attr_shape(name: str):
    """-> 'dunder' | 'plain' | None (ambiguous: not in the table)"""
    stem = name.strip("_")
    if not stem:
        return None
    lead = len(name) - len(name.lstrip("_"))
    trail = len(name) - len(name.rstrip("_"))
    if lead >= 2 and trail >= 2:
        return "dunder" if (lead, trail) == (2, 2) else None
    return "plain"


def expect_attr(base: str, name: str, way: str):
    """Expected outcome of accessing attribute `name` of an undefined through
    `way`; None when the documentation does not decide the cell."""
    shape = attr_shape(name)
    if shape is None:
        return None
    if shape == "dunder":
        # only the Python-level probe is documented; what a template makes of a
        # dunder name (item fallback, attr filter) is not
        if way == "py_getattr":
            return ("attrerr",)
        if way == "py_hasattr":
            return ("val", "is", False)
        return None
    chain = base == "ChainableUndefined"
    if way == "py_hasattr":
        # hasattr() only swallows AttributeError: the UndefinedError passes through
        return ("val", "is", True) if chain else ERR
    if way in ("py_getattr", "env_getattr", "attr_filter"):
        return ("chain",) if chain else ERR
    if way in ("tmpl_dot", "tmpl_attr_filter"):
        return ("val", "eq", "") if chain else ERR
    if way == "tmpl_attr_filter_var":       # {{ E|attr(n) is defined }}
        return ("val", "eq", "False") if chain else ERR
    raise KeyError(way)


def debug_string_ok(s, origin):
    """DebugUndefined "returns the debug info when printed": documented exactly
    for a missing name ('{{ foo }}'); otherwise it must be a '{{ ... }}' string
    mentioning the hint or the missing attribute/item.  origin["hint_weak"]:
    the hint is outside the documented domain ("Either None or a string with
    the error message": blank or not a str) - using it and falling back to
    the generated text are both accepted."""
    if not isinstance(s, str):
        return False
    braces = s.startswith("{{") and s.endswith("}}")
    if origin.get("hint"):
        if braces and origin["hint"] in s:
            return True
        if not origin.get("hint_weak"):
            return False
    if origin.get("plain_name"):
        return s == "{{ %s }}" % origin["plain_name"]
    return braces and any(n in s for n in origin["names"])


def message_ok(msg, origin):
    """The error message names the missing variable/attribute; a hint, when
    given, is used as the error message (Environment.undefined: "The `hint` is
    used as error message for the exception if provided, otherwise the error
    message will be generated from `obj` and `name` automatically").  An
    origin without hint text (hint None or the empty string: there is no
    message to use) must therefore name origin["names"]."""
    if origin.get("hint"):
        if origin["hint"] in msg:
            return True
        if not origin.get("hint_weak"):
            return False
    return any(n in msg for n in origin["names"])


# ---- boundary values of the constructor arguments (hint, obj, name) -------------
# _undefined_hint: "Either None or a string with the error message";
# _undefined_obj: the owner object; _undefined_name: "The name for the undefined
# variable / attribute or just None if no such information exists".
def ctor_arg_info(hint, name, obj_given, exc="UndefinedError"):
    """What the documentation demands of the message of an undefined built from
    these constructor arguments -> origin info for message_ok / debug_string_ok.

    hint: a str with visible text -> the hint is the message (strict);
          None or '' -> no hint: the message is generated and names `name`;
          anything else (blank str, non-str) -> undocumented, either is accepted.
    name: a non-empty str must occur in the generated message, any other
          non-None value by its repr (ints and tuples are the keys of missing
          elements); None / '' carry no information - nothing to name."""
    info = {"kind": "args", "hint": None, "plain_name": None, "exc": exc}
    if isinstance(hint, str) and hint.strip():
        info["hint"] = hint
    elif hint is None or (isinstance(hint, str) and hint == ""):
        pass
    else:
        info["hint"] = str(hint) or None
        info["hint_weak"] = True
    if name is None or (isinstance(name, str) and name == ""):
        info["names"] = [""]
        info["unnamed"] = True
    elif isinstance(name, str):
        info["names"] = [name]
        if not obj_given:
            info["plain_name"] = name
    else:
        info["names"] = [repr(name)]
    return info
