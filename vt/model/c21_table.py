"""C21 reference table: what each undefined type is documented to do for each
operation.  Transcribed from the class docstrings of Undefined /
ChainableUndefined / DebugUndefined / StrictUndefined / make_logging_undefined,
docs/api.rst ("Undefined Types", Environment.undefined), docs/templates.rst
("Variables": "evaluate to an empty string if printed or iterated over, and to
fail for every other operation"), the `defined` / `undefined` tests, the
`default` filter docstring and CHANGES.rst (``in`` on Undefined is not strict;
Undefined is iterable in async environments; copy/pickle protocol works).

Outcome codes
  ("err",)              must raise the undefined's exception (UndefinedError, or
                        the `exc` given to Environment.undefined) naming the
                        missing variable/attribute (or equal to the hint)
  ("val", pred, arg)    must succeed and satisfy predicate `pred`
  ("weak", pred, arg)   documentation is imprecise ("any other operation will
                        raise") while the statement lists the operation: accept
                        either ("err",) or a success satisfying `pred`
  ("chain",)            must return an undefined of the same class whose own
                        failures still name the original variable
  ("equiv",)            must return an equivalent undefined (same class, same
                        observable behaviour)
"""
from __future__ import annotations

BASES = ("Undefined", "ChainableUndefined", "DebugUndefined", "StrictUndefined")

ARITH = ("add", "sub", "mul", "truediv", "floordiv", "mod", "pow")
ORDER = ("lt", "le", "gt", "ge")

ERR = ("err",)


def expect(base: str, op: str, operand_is_undefined: bool = False):
    """Expected outcome for `op` on an undefined whose documented behaviour is
    that of `base` (logging variants behave like their base)."""
    strict = base == "StrictUndefined"
    # ---- operations that fail for every type --------------------------------
    if op in ("int", "float", "complex", "neg", "pos", "call", "call_args"):
        return ERR
    root = op[1:] if op.startswith("r") and op[1:] in ARITH + ORDER else op
    if root in ARITH or root in ORDER:
        return ERR
    # ---- attribute / item access --------------------------------------------
    if op in ("getattr", "getitem_str", "getitem_int"):
        return ("chain",) if base == "ChainableUndefined" else ERR
    # ---- always allowed -------------------------------------------------------
    if op == "test_defined":
        return ("val", "is", False)
    if op in ("test_undefined", "is_undefined"):
        return ("val", "is", True)
    if op in ("default", "default_true"):
        return ("val", "eq", "DFLT")
    if op in ("copy", "deepcopy", "pickle"):
        return ("equiv",)
    # ---- strict: nothing else -------------------------------------------------
    if strict:
        if op in ("str", "format", "bool", "not", "iter", "aiter", "len", "hash", "eq", "ne",
                  "req", "rne", "contains", "in_list", "in_dict", "eq_self", "concat"):
            return ERR
        raise KeyError(op)
    # ---- printable / iterable / boolean --------------------------------------
    if op in ("str", "format"):
        return ("val", "debugstr", None) if base == "DebugUndefined" else ("val", "eq", "")
    if op == "concat":      # template `~`: "converts all operands into strings"
        return ("val", "concat", None)
    if op == "bool":
        return ("val", "is", False)
    if op == "not":
        return ("val", "is", True)
    if op in ("iter", "aiter"):
        return ("val", "eq", [])
    if op == "contains":    # x in undefined: CHANGES 3.0.1 - not strict; nothing to find
        return ("val", "is", False)
    # ---- imprecisely documented: len / == / hash ------------------------------
    if op == "len":
        return ("weak", "eq", 0)
    if op == "hash":
        return ("weak", "isint", None)
    if op in ("eq", "req"):
        return ("weak", "isbool", None) if operand_is_undefined else ("weak", "is", False)
    if op in ("ne", "rne"):
        return ("weak", "isbool", None) if operand_is_undefined else ("weak", "is", True)
    if op == "eq_self":
        return ("weak", "is", True)
    if op in ("in_list", "in_dict"):
        return ("weak", "isbool", None) if operand_is_undefined else ("weak", "is", False)
    raise KeyError(op)


def debug_string_ok(s, origin):
    """DebugUndefined "returns the debug info when printed": documented exactly
    for a missing name ('{{ foo }}'); otherwise it must be a '{{ ... }}' string
    mentioning the hint or the missing attribute/item."""
    if not isinstance(s, str):
        return False
    if origin.get("hint"):
        return s.startswith("{{") and s.endswith("}}") and origin["hint"] in s
    if origin.get("plain_name"):
        return s == "{{ %s }}" % origin["plain_name"]
    return s.startswith("{{") and s.endswith("}}") and any(n in s for n in origin["names"])


def message_ok(msg, origin):
    """The error message names the missing variable/attribute; a hint, when
    given, is used as the error message."""
    if origin.get("hint"):
        return origin["hint"] in msg
    return any(n in msg for n in origin["names"])
