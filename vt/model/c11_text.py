"""C11 reference model: what a template made of plain text, comments and raw
blocks renders to.  Written from the documentation:

* templates.rst "Whitespace Control": "a single trailing newline is stripped if
  present; other whitespace (spaces, tabs, newlines etc.) is returned
  unchanged"; keep_trailing_newline keeps it; a minus sign at the start/end of a
  comment removes the whitespace before/after it; "{% raw -%}" "cleans all the
  spaces and newlines preceding the first character of your raw data".
* api.rst: newline_sequence "The sequence that starts a newline" (one of \\n,
  \\r\\n, \\r); CHANGES 3.0: "only \\n, \\r\\n and \\r are treated as line breaks".
* templates.rst "Comments" (no output) and "Escaping" (raw block content is not
  interpreted).

A template is a list of segments:
  ("text", s)
  ("comment", body, lminus, rminus)     -> "{#" ["-"] body ["-"] "#}"
  ("raw", body, open_tag, close_tag, strip_lead)
"""
from __future__ import annotations

import re

BREAK = re.compile(r"\r\n|\r|\n")
DELIM_START = re.compile(r"\{[{%#]")
ENDRAW = re.compile(r"\{%[-+]?\s*endraw\s*[-+]?%\}")
SAFE_WS = " \t\r\n"


def normalize(text, nl):
    return nl.join(BREAK.split(text))


def strip_one_trailing_break(text):
    m = re.search(r"(\r\n|\r|\n)\Z", text)
    return text[: m.start()] if m else text


def plain_expected(text, nl, keep):
    if not keep:
        text = strip_one_trailing_break(text)
    return normalize(text, nl)


def source_of(segments):
    out = []
    for seg in segments:
        if seg[0] == "text":
            out.append(seg[1])
        elif seg[0] == "comment":
            out.append("{#" + ("-" if seg[2] else "") + seg[1] + ("-" if seg[3] else "") + "#}")
        else:
            out.append(seg[2] + seg[1] + seg[3])
    return "".join(out)


def valid_text(s, followed_by_tag):
    if DELIM_START.search(s):
        return False
    return not (followed_by_tag and s.endswith("{"))


def valid_comment_body(b, lminus, rminus):
    if "#}" in b:
        return False
    if not lminus and (b + ("-" if rminus else ""))[:1] == "-":
        return False       # "{#-" would read as the leading "-" modifier
    if not rminus and b[-1:] == "-":
        return False
    if (b + "#}").find("#}") != len(b):
        return False       # the first '#}' must be our own closing delimiter
    return True


def valid_raw_body(b, close_tag):
    """The first thing that reads as an endraw tag must be our own close tag."""
    m = ENDRAW.search(b + close_tag)
    return m is not None and m.start() == len(b)


def strip_is_unambiguous(t, left):
    """'-' removes "whitespace": only decided when the run to be removed consists
    of spaces, tabs and the three line breaks (no exotic Unicode whitespace)."""
    rest = t.lstrip(SAFE_WS) if left else t.rstrip(SAFE_WS)
    edge = rest[:1] if left else rest[-1:]
    return not edge.isspace()


def expected(segments, nl, keep):
    """-> set of acceptable outputs (raw line breaks: verbatim or normalised to
    the configured newline sequence - the documentation leaves that open)."""
    segs = [list(s) for s in segments]
    # 1. the single trailing line break of the *template* goes away
    if not keep and segs and segs[-1][0] == "text":
        segs[-1][1] = strip_one_trailing_break(segs[-1][1])
    out_verbatim, out_norm = [], []
    for i, seg in enumerate(segs):
        if seg[0] == "text":
            t = seg[1]
            prev = segs[i - 1] if i else None
            nxt = segs[i + 1] if i + 1 < len(segs) else None
            if prev is not None and prev[0] == "comment" and prev[3]:
                t = t.lstrip(SAFE_WS)
            if nxt is not None and nxt[0] == "comment" and nxt[2]:
                t = t.rstrip(SAFE_WS)
            t = normalize(t, nl)
            out_verbatim.append(t)
            out_norm.append(t)
        elif seg[0] == "raw":
            b = seg[1]
            if seg[4]:
                b = b.lstrip(SAFE_WS)
            out_verbatim.append(b)
            out_norm.append(normalize(b, nl))
    return {"".join(out_verbatim), "".join(out_norm)}


# ------------------------------------------------------------------ escaping modes
# templates.rst "HTML Escaping" / "Autoescape Overrides": automatic escaping concerns
# *variables* (expression results); api.rst `finalize`: "process the result of a variable
# expression before it is output".  The template's own text, comments and raw bodies are none
# of these, so they arrive verbatim whatever the autoescape setting of the environment, inside
# `{% autoescape true|false|<expression decided at render time> %}` blocks, and whatever
# `finalize` callable is configured.
#
# block mode -> (open tag, text before the block, text after the block)
PRE_CTX = "<p class=\"x\">&'"
POST_CTX = "\"&</p>'\n"
BLOCKS = {
    "true": ("{% autoescape true %}", "", ""),
    "false": ("{% autoescape false %}", "", ""),
    "rt-true": ("{% autoescape flag %}", "", ""),          # rendered with flag=True
    "rt-false": ("{% autoescape flag %}", "", ""),         # rendered with flag=False
    "true+ctx": ("{%autoescape true%}", PRE_CTX, POST_CTX),
    "rt-true+ctx": ("{% autoescape flag and 1 %}", PRE_CTX, POST_CTX),
}
BLOCK_CLOSE = "{% endautoescape %}"


def block_flag(block):
    return block is not None and block.startswith("rt-true")


def wrappable(src_tail_text):
    """The body is followed by the endautoescape tag: its last text must not end in '{'."""
    return valid_text(src_tail_text, True)


def wrap(src, block):
    if block is None:
        return src
    o, pre, post = BLOCKS[block]
    return pre + o + src + BLOCK_CLOSE + post


def wrapped_expected(body_keep_exps, block, nl, keep):
    """body_keep_exps: acceptable outputs of the body computed with the trailing line break KEPT
    (inside a block the body's last line break no longer ends the template; the single trailing
    newline rule applies to the text after the block instead)."""
    o, pre, post = BLOCKS[block]
    return {normalize(pre, nl) + e + plain_expected(post, nl, keep) for e in body_keep_exps}
