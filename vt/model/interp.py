"""Reference interpreter for the template AST of vt.gen.jast.

Written from the template designer documentation (docs/templates.rst) and the
property statements C02-C07; it does not import jinja2's lexer, parser,
compiler, runtime or idtracking.  Escaping is not modelled (autoescape off).

Values are ordinary Python values; the model's own undefined is `Undef`.
Errors the documentation attributes to the engine are raised as
ModelError(<exception class name>); Python-level errors of ordinary
operations (TypeError, ZeroDivisionError, ...) propagate as they are.
"""
from __future__ import annotations

import itertools

from vt.gen import jast


class ModelError(Exception):
    def __init__(self, cls, msg=""):
        super().__init__(f"{cls}: {msg}")
        self.cls = cls


class Undef:
    __slots__ = ("name",)

    def __init__(self, name=None):
        self.name = name

    def __repr__(self):
        return f"Undef({self.name})"

    def __eq__(self, o):
        return isinstance(o, Undef)

    def __ne__(self, o):
        return not isinstance(o, Undef)

    def __hash__(self):
        return hash("Undef")

    def __bool__(self):
        return False


def is_undef(v):
    if isinstance(v, Undef):
        return True
    # an undefined object of the engine handed in as data / as an element of a data list
    return hasattr(type(v), "_undefined_name") and hasattr(type(v), "_fail_with_undefined_error")


def undef_error(v):
    raise ModelError("UndefinedError", repr(v))


class _Break(Exception):
    pass


class _Continue(Exception):
    pass


MISSING = object()


class Scope:
    __slots__ = ("vars", "parent")

    def __init__(self, parent=None, vars=None):
        self.vars = {} if vars is None else vars
        self.parent = parent

    def lookup(self, name):
        s = self
        while s is not None:
            if name in s.vars:
                return s.vars[name]
            s = s.parent
        return MISSING

    def flatten(self):
        chain = []
        s = self
        while s is not None:
            chain.append(s.vars)
            s = s.parent
        out = {}
        for d in reversed(chain):
            out.update(d)
        return out


class Namespace:
    def __init__(self, **kw):
        self.__dict__["_attrs"] = dict(kw)

    def __getattr__(self, n):
        try:
            return self.__dict__["_attrs"][n]
        except KeyError:
            raise AttributeError(n)


class Cycler:
    def __init__(self, *items):
        if not items:
            raise RuntimeError("no items for cycling given")
        self.items = items
        self.pos = 0

    def reset(self):
        self.pos = 0

    @property
    def current(self):
        return self.items[self.pos]

    def next(self):
        rv = self.current
        self.pos = (self.pos + 1) % len(self.items)
        return rv


class Joiner:
    def __init__(self, sep=", "):
        self.sep = sep
        self.used = False

    def __call__(self):
        if not self.used:
            self.used = True
            return ""
        return self.sep


class MLoop:
    """Documented `loop` special variable."""

    def __init__(self, items, depth0, recurse):
        self._items = items
        self._i = -1
        self.depth0 = depth0
        self._recurse = recurse
        self._last_changed = MISSING

    @property
    def depth(self):
        return self.depth0 + 1

    @property
    def index0(self):
        return self._i

    @property
    def index(self):
        return self._i + 1

    @property
    def length(self):
        return len(self._items)

    @property
    def revindex0(self):
        return len(self._items) - self._i - 1

    @property
    def revindex(self):
        return len(self._items) - self._i

    @property
    def first(self):
        return self._i == 0

    @property
    def last(self):
        return self._i == len(self._items) - 1

    @property
    def previtem(self):
        return Undef("previtem") if self._i == 0 else self._items[self._i - 1]

    @property
    def nextitem(self):
        return Undef("nextitem") if self._i >= len(self._items) - 1 else self._items[self._i + 1]

    def cycle(self, *args):
        if not args:
            raise TypeError("no items for cycling given")
        return args[self._i % len(args)]

    def changed(self, *value):
        if self._last_changed is MISSING or self._last_changed != value:
            self._last_changed = value
            return True
        return False

    def __call__(self, iterable):
        if self._recurse is None:
            raise TypeError("loop is not recursive")
        return self._recurse(iterable, self.depth0 + 1)


LOOP_ATTRS = {"index", "index0", "revindex", "revindex0", "first", "last", "length",
              "previtem", "nextitem", "depth", "depth0", "cycle", "changed"}


class MMacro:
    def __init__(self, interp, name, params, body, defscope, tpl):
        self.interp = interp
        self.name = name
        self.params = params
        self.body = body
        self.defscope = defscope
        self.tpl = tpl
        used = set()

        def fn(e):
            if e[0] == "name" and e[1] in ("varargs", "kwargs", "caller"):
                used.add(e[1])

        def visit(body):
            for st in body:
                for e in jast.stmt_exprs(st):
                    jast.walk_expr(e, fn)
                for b in jast.stmt_bodies(st):
                    visit(b)

        visit(body)
        for _, d in params:
            if d is not None:
                jast.walk_expr(d, fn)
        self.uses = used

    def __call__(self, *args, **kwargs):
        pnames = [n for n, _ in self.params]
        npar = len(pnames)
        bound = {}
        for n, v in zip(pnames, args):
            bound[n] = v
        extra = list(args[npar:])
        kwargs = dict(kwargs)
        for n in pnames[len(args):]:
            if n in kwargs:
                bound[n] = kwargs.pop(n)
        caller = MISSING
        explicit_caller = "caller" in pnames
        if "caller" in self.uses and not explicit_caller:
            caller = kwargs.pop("caller", MISSING)
            if caller is MISSING:
                caller = Undef("caller")
        if kwargs and "kwargs" not in self.uses:
            raise TypeError(f"macro {self.name} takes no keyword argument {next(iter(kwargs))}")
        if extra and "varargs" not in self.uses:
            raise TypeError(f"macro {self.name} takes not more than {npar} argument(s)")
        scope = Scope(self.defscope)
        if caller is not MISSING:
            scope.vars["caller"] = caller
        if "kwargs" in self.uses:
            scope.vars["kwargs"] = kwargs
        if "varargs" in self.uses:
            scope.vars["varargs"] = tuple(extra)
        # defaults at call time, in order, seeing earlier parameters
        for n, d in self.params:
            if n in bound:
                scope.vars[n] = bound[n]
            elif d is not None:
                scope.vars[n] = self.interp.ev(d, scope, self.tpl)
            else:
                scope.vars[n] = Undef(n)
        out = []
        self.interp.run(self.body, scope, out, self.tpl, frame_top=False)
        return self.interp.wrap_markup("".join(out))


class TplState:
    """Per-render state of one template (or inheritance chain)."""

    def __init__(self, name, ctx_scope):
        self.name = name
        self.ctx = ctx_scope          # Scope: top-level vars over data
        self.exported = []            # names in export order
        self.parent = MISSING         # evaluated extends target
        self.pre_extends_output = []
        self.cur = name
        self.blocks = {}              # name -> [definitions most-derived first]
        self.extended = False


class TplRef:
    """Data value standing for a Template object of the given name."""

    def __init__(self, name):
        self.name = name


def collect_blocks(body, out):
    def fn(st):
        if st[0] == "block":
            out.setdefault(st[1], st)
    jast.walk_stmts(body, fn)
    return out


def model_str(v):
    if is_undef(v):
        return ""
    return str(v)


def soft(v):
    """String form that keeps a safe (markupsafe.Markup) string safe."""
    if is_undef(v):
        return ""
    if hasattr(v, "__html__"):
        return v
    return str(v)


class Interp:
    def __init__(self, templates, globals=None, filters=None, tests=None):
        self.templates = templates  # name -> body
        self.globals = {
            "range": range, "dict": dict, "namespace": Namespace,
            "cycler": Cycler, "joiner": Joiner,
        }
        if globals:
            self.globals.update(globals)
        from vt.model import builtins_spec

        self.filters = dict(builtins_spec.FILTERS)
        self.tests = dict(builtins_spec.TESTS)
        if filters:
            self.filters.update(filters)
        if tests:
            self.tests.update(tests)
        self.lookups = []   # (template name, variable) resolved from render data
        self.loads = []     # (kind, from_template, name)
        self.steps = 0
        self.max_steps = 200000

    autoescape = False

    def wrap_markup(self, s):
        return s

    def to_output(self, v):
        if not self.autoescape:
            return model_str(v)
        from markupsafe import escape

        return str(escape(soft(v)))

    # ------------------------------------------------------------ render
    def render(self, name, data):
        out = []
        self.render_into(name, dict(data), out)
        return "".join(out)

    def render_into(self, name, data, out):
        body = self.get_body(name)
        base = Scope(Scope(None, dict(self.globals)), data)
        st = TplState(name, Scope(base))
        self.run_chain(name, body, st, out)
        return st

    def get_body(self, name):
        if isinstance(name, TplRef):
            name = name.name
        if not isinstance(name, str) or name not in self.templates:
            raise ModelError("TemplateNotFound", str(name))
        return self.templates[name]

    def run_chain(self, name, body, st, out):
        """Execute a template's top level; follow extends."""
        cur_name, cur_body = name, body
        first = True
        while True:
            own = collect_blocks(cur_body, {})
            for bname, bnode in own.items():
                st.blocks.setdefault(bname, []).append((cur_name, bnode))
            st.parent = MISSING
            st.cur = cur_name
            buf = []
            self.run(cur_body, st.ctx, buf, st, frame_top=True, flow=True)
            if st.parent is MISSING:
                out.extend(buf)
                return
            # output produced before the extends statement executed is kept
            out.extend(st.pre_extends_output)
            cur_name = st.parent.name if isinstance(st.parent, TplRef) else st.parent
            self.loads.append(("extends", st.cur, cur_name))
            cur_body = self.get_body(cur_name)

    # ------------------------------------------------------- statements
    def tick(self):
        self.steps += 1
        if self.steps > self.max_steps:
            raise ModelError("StepBudget", "model step budget exceeded")

    def run(self, body, scope, out, st, frame_top=False, flow=False):
        for s in body:
            self.tick()
            k = s[0]
            if flow and st.parent is not MISSING and k in ("text", "out", "block", "raw"):
                # child template content outside blocks is not rendered
                continue
            if k == "text":
                out.append(s[1])
            elif k == "out":
                out.append(self.to_output(self.ev(s[1], scope, st)))
            elif k == "if":
                done = False
                for c, b in s[1]:
                    if self.truth(self.ev(c, scope, st)):
                        self.run(b, scope, out, st, frame_top, flow)
                        done = True
                        break
                if not done and s[2] is not None:
                    self.run(s[2], scope, out, st, frame_top, flow)
            elif k == "for":
                self.do_for(s, scope, out, st, flow)
            elif k == "set":
                v = self.ev(s[2], scope, st)
                self.assign(s[1], v, scope, st, frame_top)
            elif k == "setns":
                ns = self.lookup(s[1], scope, st)
                v = self.ev(s[3], scope, st)
                if not isinstance(ns, Namespace):
                    raise ModelError("TemplateRuntimeError", "cannot assign attribute on non-namespace object")
                ns.__dict__["_attrs"][s[2]] = v
            elif k == "setblock":
                buf = []
                self.run(s[2], Scope(scope), buf, st)
                v = self.wrap_markup("".join(buf))
                for fname in (s[3] if len(s) > 3 else []):
                    v = self.apply_filter(fname, v, [], {})
                if len(s) > 3 and s[3]:
                    v = self.wrap_markup(v)
                self.assign(s[1], v, scope, st, frame_top)
            elif k == "with":
                vals = [(n, self.ev(e, scope, st)) for n, e in s[1]]
                inner = Scope(scope)
                for n, v in vals:
                    inner.vars[n] = v
                self.run(s[2], inner, out, st, False, flow)
            elif k == "macro":
                m = MMacro(self, s[1], s[2], s[3], scope, st)
                self.assign(s[1], m, scope, st, frame_top)
            elif k == "callblock":
                callexpr = s[2]
                caller = MMacro(self, "caller", s[1], s[3], scope, st)
                f = self.ev(callexpr[1], scope, st)
                args, kw = self.ev_args(callexpr[2], callexpr[3], scope, st)
                kw["caller"] = caller
                out.append(model_str(self.call(f, args, kw)))
            elif k == "filterblock":
                buf = []
                self.run(s[3], Scope(scope), buf, st)
                args = [self.ev(a, scope, st) for a in s[2]]
                out.append(model_str(self.apply_filter(s[1], "".join(buf), args, {})))
            elif k == "break":
                raise _Break()
            elif k == "continue":
                raise _Continue()
            elif k == "block":
                self.do_block_site(s, scope, out, st)
            elif k == "extends":
                if st.parent is not MISSING:
                    raise ModelError("TemplateRuntimeError", "extended multiple times")
                st.parent = self.ev(s[1], scope, st)
                st.pre_extends_output = list(out)
            elif k == "include":
                self.do_include(s, scope, out, st)
            elif k == "import":
                mod = self.do_import(s[1], s[3], scope, st)
                self.assign(s[2], mod, scope, st, frame_top, export=False)
            elif k == "from":
                mod = self.do_import(s[1], s[3], scope, st)
                for n, alias in s[2]:
                    v = mod.__dict__["_attrs"].get(n, MISSING)
                    if v is MISSING:
                        v = Undef(n)
                    self.assign(alias or n, v, scope, st, frame_top, export=False)
            elif k in ("comment",):
                pass
            elif k == "raw":
                out.append(s[1])
            else:
                raise AssertionError(k)

    def assign(self, name, v, scope, st, frame_top, export=True):
        scope.vars[name] = v
        if frame_top and scope is st.ctx and export and not name.startswith("_"):
            if name not in st.exported:
                st.exported.append(name)
        elif frame_top and scope is st.ctx and name in st.exported and not export:
            st.exported.remove(name)

    def do_for(self, s, scope, out, st, flow=False):
        targets, it_e, body, else_body, filt, recursive = s[1:7]

        def loop_over(iterable, depth0):
            if is_undef(iterable):
                seq = []
            else:
                seq = list(iterable)
            items = []
            for it in seq:
                if filt is not None:
                    fs = Scope(scope)
                    self.bind_targets(targets, it, fs)
                    if not self.truth(self.ev(filt, fs, st)):
                        continue
                items.append(it)
            buf = []
            loop = MLoop(items, depth0, loop_over if recursive else None)
            try:
                for i, it in enumerate(items):
                    loop._i = i
                    inner = Scope(scope)
                    self.bind_targets(targets, it, inner)
                    inner.vars["loop"] = loop
                    try:
                        self.run(body, inner, buf, st, False, flow)
                    except _Continue:
                        continue
            except _Break:
                pass
            if not items and else_body is not None:
                self.run(else_body, Scope(scope), buf, st, False, flow)
            return "".join(buf)

        out.append(loop_over(self.ev(it_e, scope, st), 0))

    def bind_targets(self, targets, it, scope):
        if len(targets) == 1:
            scope.vars[targets[0]] = it
        else:
            vals = list(it)
            if len(vals) != len(targets):
                raise ValueError("unpack")
            for n, v in zip(targets, vals):
                scope.vars[n] = v

    # ----------------------------------------------------------- blocks
    def do_block_site(self, s, scope, out, st):
        name = s[1]
        defs = st.blocks.get(name) or [(st.cur, s)]
        scoped = s[3]
        base = scope if scoped else st.ctx
        out.append(self.render_block(st, name, 0, base, defs))

    def render_block(self, st, name, depth, base, defs):
        tname, node = defs[depth]
        if node[4] and depth == 0:
            # a required block that no descendant overrides
            raise ModelError("TemplateRuntimeError", f"required block {name} not overridden")
        inner = Scope(base)
        if depth + 1 < len(defs):
            inner.vars["super"] = SuperRef(self, st, name, depth + 1, base, defs)
        else:
            inner.vars["super"] = Undef("super")
        buf = []
        self.run(node[2], inner, buf, st)
        return "".join(buf)

    # --------------------------------------------------- include/import
    def resolve_target(self, v, ignore_missing):
        names = v if isinstance(v, (list, tuple)) else [v]
        if isinstance(v, (list, tuple)) and not names:
            raise ModelError("TemplateNotFound", "empty list")
        for n in names:
            if is_undef(n):
                undef_error(n)
            key = n.name if isinstance(n, TplRef) else n
            if isinstance(key, str) and key in self.templates:
                return key
        return None

    def do_include(self, s, scope, out, st):
        v = self.ev(s[1], scope, st)
        name = self.resolve_target(v, s[3])
        if name is None:
            if s[3]:
                return
            raise ModelError("TemplateNotFound", str(v))
        self.loads.append(("include", st.cur, name))
        data = scope.flatten() if s[2] is not False else {}
        for g in self.globals:
            if data.get(g) is self.globals[g]:
                data.pop(g)
        self.render_into(name, data, out)

    def do_import(self, target_e, with_context, scope, st):
        v = self.ev(target_e, scope, st)
        name = self.resolve_target(v, False)
        if name is None:
            raise ModelError("TemplateNotFound", str(v))
        self.loads.append(("import", st.cur, name))
        data = scope.flatten() if with_context is True else {}
        for g in self.globals:
            if data.get(g) is self.globals[g]:
                data.pop(g)
        sink = []
        mst = self.render_into(name, data, sink)
        mod = Namespace()
        for n in mst.exported:
            mod.__dict__["_attrs"][n] = mst.ctx.vars[n]
        mod.__dict__["_body"] = "".join(sink)
        return mod

    # ------------------------------------------------------ expressions
    def truth(self, v):
        return bool(v)

    def lookup(self, name, scope, st):
        v = scope.lookup(name)
        if v is MISSING or (name == "self" and not self.locally_bound(scope, name, st)):
            if name == "self":
                return SelfRef(self, st)
            return Undef(name)
        if st is not None and self.track_lookups:
            self.note_lookup(name, scope, st)
        return v

    track_lookups = False

    def locally_bound(self, scope, name, st):
        s = scope
        while s is not None and s is not st.ctx.parent:
            if name in s.vars:
                return True
            s = s.parent
        return False

    def note_lookup(self, name, scope, st):
        pass

    def call(self, f, args, kw):
        if is_undef(f):
            undef_error(f)
        return f(*args, **kw)

    def getattr_(self, obj, name):
        """`.name`: attribute first, then item."""
        if is_undef(obj):
            undef_error(obj)
        if isinstance(obj, Namespace):
            v = obj.__dict__["_attrs"].get(name, MISSING)
            if v is MISSING:
                if name == "_body":
                    return Undef(name)
                return Undef(name)
            return v
        if isinstance(obj, MLoop) and name not in LOOP_ATTRS:
            return Undef(name)
        try:
            return getattr(obj, name)
        except AttributeError:
            pass
        try:
            return obj[name]
        except (TypeError, LookupError, AttributeError):
            return Undef(name)

    def getitem_(self, obj, key):
        """`[key]`: item first, then attribute (string keys)."""
        if is_undef(obj):
            undef_error(obj)
        if isinstance(obj, Namespace):
            v = obj.__dict__["_attrs"].get(key, MISSING) if isinstance(key, str) else MISSING
            return Undef(key) if v is MISSING else v
        try:
            return obj[key]
        except (AttributeError, TypeError, LookupError):
            if isinstance(key, str):
                try:
                    return getattr(obj, key)
                except AttributeError:
                    pass
            return Undef(key)

    def ev_args(self, a, k, scope, st):
        args = []
        for x in a:
            if x[0] == "star":
                args.extend(self.ev(x[1], scope, st))
            else:
                args.append(self.ev(x, scope, st))
        kw = {}
        for n, x in k:
            if n == "**":
                kw.update(self.ev(x, scope, st))
            else:
                kw[n] = self.ev(x, scope, st)
        return args, kw

    def apply_filter(self, name, v, args, kw):
        f = self.filters.get(name)
        if f is None:
            raise ModelError("TemplateAssertionError", f"no filter {name}")
        return f(self, v, *args, **kw)

    def ev(self, e, scope, st):
        self.tick()
        k = e[0]
        if k == "const":
            return e[1]
        if k == "name":
            return self.lookup(e[1], scope, st)
        if k == "un":
            v = self.ev(e[2], scope, st)
            if e[1] == "not":
                return not self.truth(v)
            if is_undef(v):
                undef_error(v)
            return -v if e[1] == "-" else +v
        if k == "bin":
            a = self.ev(e[2], scope, st)
            b = self.ev(e[3], scope, st)
            op = e[1]
            if op == "~":
                if self.autoescape:
                    # documented HTML-escaping rule: once a safe string takes part,
                    # the result is safe and the other operands are escaped
                    parts = [soft(a), soft(b)]
                    if any(hasattr(x, "__html__") for x in parts):
                        from markupsafe import Markup

                        return Markup("").join(parts)
                    return "".join(parts)
                return model_str(a) + model_str(b)
            if is_undef(a):
                undef_error(a)
            if is_undef(b):
                undef_error(b)
            if op == "+":
                return a + b
            if op == "-":
                return a - b
            if op == "*":
                return a * b
            if op == "/":
                return a / b
            if op == "//":
                return a // b
            if op == "%":
                return a % b
            if op == "**":
                return a ** b
            raise AssertionError(op)
        if k == "cmp":
            left = self.ev(e[1], scope, st)
            for op, r in e[2]:
                right = self.ev(r, scope, st)
                if op == "==":
                    ok = left == right
                elif op == "!=":
                    ok = left != right
                elif op in ("in", "not in"):
                    if is_undef(right):
                        ok = False  # an undefined container iterates as empty
                    else:
                        ok = left in right
                    if op == "not in":
                        ok = not ok
                else:
                    if is_undef(left):
                        undef_error(left)
                    if is_undef(right):
                        undef_error(right)
                    if op == "<":
                        ok = left < right
                    elif op == "<=":
                        ok = left <= right
                    elif op == ">":
                        ok = left > right
                    else:
                        ok = left >= right
                if not ok:
                    return ok if len(e[2]) == 1 else False
                left = right
            return ok if len(e[2]) == 1 else True
        if k == "and":
            a = self.ev(e[1], scope, st)
            return self.ev(e[2], scope, st) if self.truth(a) else a
        if k == "or":
            a = self.ev(e[1], scope, st)
            return a if self.truth(a) else self.ev(e[2], scope, st)
        if k == "cond":
            if self.truth(self.ev(e[2], scope, st)):
                return self.ev(e[1], scope, st)
            if e[3] is None:
                return Undef(None)
            return self.ev(e[3], scope, st)
        if k == "attr":
            return self.getattr_(self.ev(e[1], scope, st), e[2])
        if k == "item":
            o = self.ev(e[1], scope, st)
            return self.getitem_(o, self.ev(e[2], scope, st))
        if k == "slice":
            o = self.ev(e[1], scope, st)
            f = lambda x: None if x is None else self.ev(x, scope, st)
            sl = slice(f(e[2]), f(e[3]), f(e[4]))
            return self.getitem_(o, sl)
        if k == "list":
            return [self.ev(x, scope, st) for x in e[1]]
        if k == "tuple":
            return tuple(self.ev(x, scope, st) for x in e[1])
        if k == "dict":
            return {self.ev(a, scope, st): self.ev(b, scope, st) for a, b in e[1]}
        if k == "call":
            f = self.ev(e[1], scope, st)
            args, kw = self.ev_args(e[2], e[3], scope, st)
            return self.call(f, args, kw)
        if k == "filter":
            v = self.ev(e[1], scope, st)
            args = [self.ev(a, scope, st) for a in e[3]]
            kw = {n: self.ev(a, scope, st) for n, a in e[4]}
            return self.apply_filter(e[2], v, args, kw)
        if k == "test":
            v = self.ev(e[1], scope, st)
            args = [self.ev(a, scope, st) for a in e[3]]
            t = self.tests.get(e[2])
            if t is None:
                raise ModelError("TemplateAssertionError", f"no test {e[2]}")
            r = bool(t(self, v, *args))
            return (not r) if e[4] else r
        raise AssertionError(k)


class SuperRef:
    """`super` inside a block: callable, with a `.super` for the next level."""

    def __init__(self, interp, st, name, depth, base, defs):
        self.interp, self.st, self.name, self.depth, self.base, self.defs = \
            interp, st, name, depth, base, defs

    def __call__(self):
        return self.interp.wrap_markup(
            self.interp.render_block(self.st, self.name, self.depth, self.base, self.defs))

    @property
    def super(self):
        if self.depth + 1 < len(self.defs):
            return SuperRef(self.interp, self.st, self.name, self.depth + 1, self.base, self.defs)
        return Undef("super")


class SelfRef:
    """`self.blockname()` renders the most-derived definition."""

    def __init__(self, interp, st):
        self.__dict__["_i"] = interp
        self.__dict__["_st"] = st

    def __getattr__(self, name):
        st = self.__dict__["_st"]
        interp = self.__dict__["_i"]
        defs = st.blocks.get(name)
        if not defs:
            raise AttributeError(name)

        def render():
            return interp.wrap_markup(interp.render_block(st, name, 0, st.ctx, defs))

        return render
