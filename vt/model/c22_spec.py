"""Executable contracts for the collection filters (property C22).

Written from the filter docstrings in src/jinja2/filters.py (rendered into
docs/templates.rst "List of Builtin Filters"), the test docstrings in
src/jinja2/tests.py and the property statement - not from the filter bodies.
Where the docstring defines the result exactly ("Sort an iterable using
Python's sorted", "unique items are yielded in the same order as their first
occurrence") the contract is a Python definition; where it is vague (which of
several minimal items `min` returns, what `first` returns for an empty input)
only the robust consequence is checked.  "Case insensitive" (case_sensitive
false, the default of unique/sort/groupby/min/max/dictsort) is the comparison
of the LOWER-CASED keys, str.lower(); see the "case folding" section below for
the inputs on which a second reading is accepted.

check(name, items, kind, args, kwargs, value, S, info=None) -> None | (aspect, message)

  items  the elements of the filter subject in order (for dictsort: the
         (key, value) pairs; for a str subject: its characters)
  kind   'list' | 'tuple' | 'gen' | 'iter' | 'agen' | 'aiter' | 'str' | 'dict', or one
         of the other subject kinds of KIND_CAPS (the caller asks covered(name,
         kind) first: is the result on such a subject documented at all)
  value  the materialised result of the real filter (lists for lazy results)
  S      vt.gen.fcase_c2223.Sameness over ``items``
"""
from __future__ import annotations

import itertools

from vt.gen.fcase_c2223 import Obj, is_undefined


class _Missing:
    def __repr__(self):
        return "<missing attribute>"

    def __bool__(self):
        return False


MISSING = _Missing()
REQ = object()

# documented signatures (templates.rst autodoc of jinja-filters.*)
SIG = {
    "batch": [("linecount", REQ), ("fill_with", None)],
    "slice": [("slices", REQ), ("fill_with", None)],
    "unique": [("case_sensitive", False), ("attribute", None)],
    "groupby": [("attribute", REQ), ("default", None), ("case_sensitive", False)],
    "sort": [("reverse", False), ("case_sensitive", False), ("attribute", None)],
    "dictsort": [("case_sensitive", False), ("by", "key"), ("reverse", False)],
    "min": [("case_sensitive", False), ("attribute", None)],
    "max": [("case_sensitive", False), ("attribute", None)],
    "sum": [("attribute", None), ("start", 0)],
    "join": [("d", ""), ("attribute", None)],
    "reverse": [], "first": [], "last": [], "list": [], "length": [], "count": [],
    "random": [], "items": [],
}


def bind(name, args, kwargs):
    sig = SIG[name]
    out = {k: d for k, d in sig}
    if len(args) > len(sig):
        raise TypeError("too many arguments")
    for (k, _), a in zip(sig, args):
        out[k] = a
    for k, a in kwargs.items():
        if k not in out:
            raise TypeError(f"unknown keyword {k}")
        out[k] = a
    for k, v in out.items():
        if v is REQ:
            raise TypeError(f"missing {k}")
    return out


# ------------------------------------------------------------ attributes
def parts_of(attribute):
    """'Dots are allowed to access attributes of attributes.  Integer parts in
    paths are looked up as integers.'"""
    if attribute is None:
        return []
    if isinstance(attribute, str):
        return [int(x) if x.isdigit() else x for x in attribute.split(".")]
    return [attribute]


def lookup1(obj, part):
    """'an attribute or key': key of a dict, attribute of an object, index of
    a sequence."""
    if obj is MISSING:
        return MISSING
    if isinstance(obj, dict):
        return obj[part] if part in obj else MISSING
    if isinstance(part, int):
        if isinstance(obj, (list, tuple, str)) and -len(obj) <= part < len(obj):
            return obj[part]
        return MISSING
    if isinstance(obj, Obj):
        return getattr(obj, part, MISSING)
    return MISSING


def _norm_of(fold):
    """``fold`` is False/None (case-sensitive: strings compared as they are),
    True (the documented case-insensitive comparison: strings are compared
    LOWER-CASED, str.lower()), or an explicit str -> str normaliser (used only
    to name a failure / to accept the second reading of an ambiguous input)."""
    if not fold:
        return None
    if fold is True:
        return str.lower
    return fold


def getter(attribute, default=None, fold=False):
    parts = parts_of(attribute)
    norm = _norm_of(fold)

    def get(item):
        for p in parts:
            item = lookup1(item, p)
        if item is MISSING and default is not None:
            # "a default value to use if an object in the list does not have
            # the given attribute"
            item = default
        if norm is not None and isinstance(item, str):
            item = norm(item)
        return item

    return get


def getter_continue_into_default(attribute, default=None, fold=False):
    """NOT part of the contract.  Only used to *name* a failure: the lookup
    that keeps walking the remaining path parts inside the default value
    (``default='NY'`` and path ``a.b.0`` gives ``'N'``)."""
    parts = parts_of(attribute)
    norm = _norm_of(fold)

    def get(item):
        for p in parts:
            item = lookup1(item, p)
            if item is MISSING and default is not None:
                item = default
        if norm is not None and isinstance(item, str):
            item = norm(item)
        return item

    return get


def multi_getter(attribute, fold=False):
    """'Can be a list of attributes like "age,name"'."""
    if isinstance(attribute, str):
        gs = [getter(a, fold=fold) for a in attribute.split(",")]
    else:
        gs = [getter(attribute, fold=fold)]
    return lambda item: [g(item) for g in gs]


# ------------------------------------------------------------ tests (select)
def _t_lower(v):
    return str(v).islower()


def _t_upper(v):
    return str(v).isupper()


TESTS = {
    "odd": lambda v: v % 2 == 1,
    "even": lambda v: v % 2 == 0,
    "divisibleby": lambda v, n: v % n == 0,
    "none": lambda v: v is None,
    "string": lambda v: isinstance(v, str),
    "number": lambda v: isinstance(v, (int, float)),
    "integer": lambda v: isinstance(v, int) and not isinstance(v, bool),
    "float": lambda v: isinstance(v, float),
    "mapping": lambda v: isinstance(v, dict),
    "boolean": lambda v: v is True or v is False,
    "true": lambda v: v is True,
    "false": lambda v: v is False,
    "defined": lambda v: v is not MISSING,
    "undefined": lambda v: v is MISSING,
    "lower": _t_lower,
    "upper": _t_upper,
    "in": lambda v, seq: v in seq,
}
for _names, _f in (
    (("eq", "equalto", "=="), lambda v, o: v == o),
    (("ne", "!="), lambda v, o: v != o),
    (("lt", "lessthan", "<"), lambda v, o: v < o),
    (("le", "<="), lambda v, o: v <= o),
    (("gt", "greaterthan", ">"), lambda v, o: v > o),
    (("ge", ">="), lambda v, o: v >= o),
):
    for _n in _names:
        TESTS[_n] = _f


# simple filters usable inside map(); Python definitions of their docstrings
def _m_first(v):
    for x in v:
        return x
    return MISSING


MAPPABLE = {
    "upper": lambda v: str(v).upper(),
    "lower": lambda v: str(v).lower(),
    "length": lambda v: len(v),
    "count": lambda v: len(v),
    "abs": lambda v: abs(v),
    "string": lambda v: str(v),
    "list": lambda v: list(v),
    "first": _m_first,
    "sum": lambda v: sum(v),
    "join": lambda v, d="": str(d).join(str(x) for x in v),
    "trim": lambda v: str(v).strip(),
    "default": lambda v, d="": v,      # items are always defined
}


# ------------------------------------------------------------ helpers
def _r(v, n=300):
    s = repr(v)
    return s if len(s) <= n else s[:n] + "..."


def _exact(S, got, exp, aspect="result"):
    if S.same(got, exp):
        return None
    return (aspect, f"got {_r(got)}, documented definition gives {_r(exp)}")


def _is_seq(v):
    return isinstance(v, (list, tuple))


# ------------------------------------------------------------ contracts
def c_batch(items, kind, p, got, S):
    n, fill = p["linecount"], p["fill_with"]
    if not _is_seq(got) or not all(_is_seq(r) for r in got):
        return ("shape", f"not a list of lists: {_r(got)}")
    want_rows = -(-len(items) // n)
    if len(got) != want_rows:
        return ("rows", f"{len(got)} rows for {len(items)} items in batches of {n} "
                        f"(want {want_rows}): {_r(got)}")
    flat = [x for r in got for x in r]
    if not S.same(flat[:len(items)], items):
        return ("partition", f"rows do not contain the input in order: {_r(got)}")
    for r in got[:-1]:
        if len(r) != n:
            return ("sizes", f"inner row of {len(r)} items, linecount={n}: {_r(got)}")
    if got:
        last = list(got[-1])
        real = len(items) - n * (want_rows - 1)
        pad = last[real:]
        if fill is None:
            if pad:
                return ("sizes", f"last row has extra items without fill_with: {_r(got)}")
        else:
            if len(last) != n or not all(S.same(x, fill) for x in pad):
                return ("fill", f"last row not filled up to {n} with {fill!r}: {_r(got)}")
    return None


def c_slice(items, kind, p, got, S):
    k, fill = p["slices"], p["fill_with"]
    if not _is_seq(got) or not all(_is_seq(r) for r in got):
        return ("shape", f"not a list of lists: {_r(got)}")
    if len(got) != k:
        return ("count", f"{len(got)} slices, asked for {k}: {_r(got)}")
    n = len(items)
    lo, hi = n // k, -(-n // k)
    # the items, without any fill values, in order and in balanced columns
    cols = []
    pos = 0
    for c in got:
        c = list(c)
        real = 0
        while real < len(c) and pos + real < n and S.same(c[real], items[pos + real]):
            real += 1
        if real > hi:
            real = hi
        cols.append((c[:real], c[real:]))
        pos += real
    if pos != n:
        return ("partition", f"slices do not contain the input in order: {_r(got)}")
    for realpart, extra in cols:
        if not (lo <= len(realpart) <= hi):
            return ("sizes", f"column of {len(realpart)} items for {n} items in {k} "
                             f"slices: {_r(got)}")
    if fill is None:
        for realpart, extra in cols:
            if extra:
                return ("partition", f"extra values without fill_with: {_r(got)}")
        return None
    # "If you pass it a second argument it's used to fill missing values on
    # the last iteration": a column gets the fill value exactly when it is one
    # short of the longest column.
    for realpart, extra in cols:
        want = hi - len(realpart)
        if len(extra) != want or not all(S.same(x, fill) for x in extra):
            if (n % k == 0 and all(len(e) == 1 and S.same(e[0], fill) for _, e in cols)):
                return ("fill:even-division-pads-every-column",
                        f"{n} items in {k} slices divide evenly, nothing is missing on the "
                        f"last iteration, yet every column got {fill!r}: {_r(got)}")
            return ("fill", f"column {_r(realpart)} + {_r(extra)}: expected {want} fill "
                            f"value(s) {fill!r}: {_r(got)}")
    return None


def _fold_of(p, fold):
    """The string normaliser in force: the documented one (lower-casing when
    case_sensitive is false) unless a contract is re-evaluated under another
    reading."""
    return (not p["case_sensitive"]) if fold is None else fold


def c_unique(items, kind, p, got, S, fold=None):
    g = getter(p["attribute"], fold=_fold_of(p, fold))
    seen = []
    exp = []
    for x in items:
        k = g(x)
        if not any(k == s for s in seen):
            seen.append(k)
            exp.append(x)
    if S.same(got, exp):
        return None
    if _is_seq(got) and len(got) == len(exp):
        return ("first-occurrence", f"got {_r(got)}, first occurrences in order are {_r(exp)}")
    return ("result", f"got {_r(got)}, first occurrences in order are {_r(exp)}")


def c_sort(items, kind, p, got, S, fold=None):
    key = multi_getter(p["attribute"], fold=_fold_of(p, fold))
    exp = sorted(items, key=key, reverse=bool(p["reverse"]))
    if S.same(got, exp):
        return None
    if _is_seq(got) and len(got) == len(items):
        ks = [key(x) for x in got]
        ordered = all((a >= b) if p["reverse"] else (a <= b) for a, b in zip(ks, ks[1:]))
        if ordered:
            return ("stability", f"sorted but equal elements reordered: got {_r(got)}, "
                                 f"stable sort gives {_r(exp)}")
    return ("order", f"got {_r(got)}, sorted() gives {_r(exp)}")


def c_dictsort(items, kind, p, got, S, fold=None):
    pos = {"key": 0, "value": 1}[p["by"]]
    norm = _norm_of(_fold_of(p, fold))
    exp = sorted(items,
                 key=lambda kv: norm(kv[pos]) if norm and isinstance(kv[pos], str) else kv[pos],
                 reverse=bool(p["reverse"]))
    if S.same(got, exp):
        return None
    return ("order", f"got {_r(got)}, sorted pairs are {_r(exp)}")


def c_groupby(items, kind, p, got, S, fold=None):
    fold = _fold_of(p, fold)
    v = _c_groupby(items, kind, p, got, S, getter, fold)
    if v is not None and p["default"] is not None and \
            any(getter(p["attribute"])(x) is MISSING for x in items):
        if _c_groupby(items, kind, p, got, S, getter_continue_into_default, fold) is None:
            return ("default:path-continues-into-default",
                    f"attribute={p['attribute']!r} default={p['default']!r}: " + v[1])
    return v


def _c_groupby(items, kind, p, got, S, getter, fold):
    keyf = getter(p["attribute"], default=p["default"], fold=fold)
    rawf = getter(p["attribute"], default=p["default"], fold=False)
    if not _is_seq(got):
        return ("shape", f"not a list: {_r(got)}")
    groups = []
    for g in got:
        try:
            a, b = g
            if not (g.grouper is a and g.list is b):
                return ("shape", "group is not a (grouper, list) namedtuple")
        except Exception as e:
            return ("shape", f"group {_r(g)} is not a (grouper, list) namedtuple: {e}")
        groups.append((a, list(b)))
    s = sorted(items, key=keyf)
    exp = []
    for k, vals in itertools.groupby(s, keyf):
        vals = list(vals)
        exp.append((rawf(vals[0]) if fold else k, vals))
    flat = [x for _, vs in groups for x in vs]
    if len(flat) != len(items) or any(not vs for _, vs in groups):
        return ("partition", f"groups do not partition the input: {_r(got)}")
    if len(groups) != len(exp):
        return ("one-group-per-key", f"{len(groups)} groups for {len(exp)} distinct keys "
                                     f"(values are sorted first so only one group is returned "
                                     f"for each unique value): {_r(got)}")
    if not S.same(flat, [x for _, vs in exp for x in vs]):
        return ("order", f"concatenated groups are not the stable sort by key: {_r(got)} "
                         f"vs {_r(exp)}")
    for (gk, gv), (ek, ev) in zip(groups, exp):
        if len(gv) != len(ev):
            return ("partition", f"group sizes differ: {_r(got)} vs {_r(exp)}")
        if not S.same(gk, ek):
            return ("grouper", f"grouper {_r(gk)} should be {_r(ek)} (value of the attribute, "
                               f"case of the first item): {_r(got)}")
    return None


def c_reverse(items, kind, p, got, S):
    if kind == "str":
        return _exact(S, got, "".join(items)[::-1])
    return _exact(S, got, list(items)[::-1])


def c_first(items, kind, p, got, S):
    if not items:
        return None  # docstring silent; cross-path agreement only
    return _exact(S, got, items[0])


def c_last(items, kind, p, got, S):
    if not items:
        return None
    return _exact(S, got, items[-1])


def _c_extreme(pick):
    def c(items, kind, p, got, S, fold=None):
        if not items:
            return None
        g = getter(p["attribute"], fold=_fold_of(p, fold))
        if not any(got is x for x in items) and not any(S.same(got, x) for x in items):
            return ("member", f"{_r(got)} is not an item of the input")
        best = pick(g(x) for x in items)
        try:
            k = g(got)
        except Exception as e:
            return ("member", f"cannot take key of {_r(got)}: {e}")
        if not (k == best):
            return ("extreme", f"returned {_r(got)} with key {_r(k)}, extreme key is {_r(best)}")
        return None

    return c


def c_sum(items, kind, p, got, S):
    g = getter(p["attribute"])
    exp = sum([g(x) for x in items], p["start"])
    return _exact(S, got, exp)


def c_join(items, kind, p, got, S):
    g = getter(p["attribute"])
    exp = str(p["d"]).join(str(g(x)) for x in items)
    if not isinstance(got, str):
        return ("type", f"join returned {type(got).__name__}")
    return _exact(S, got, exp)


def c_list(items, kind, p, got, S):
    if not isinstance(got, list):
        return ("type", f"list returned {type(got).__name__}")
    return _exact(S, got, list(items))


def c_length(items, kind, p, got, S):
    return _exact(S, got, len(items))


def c_random(items, kind, p, got, S):
    """'Return a random item from the sequence.'"""
    if not items:
        return None
    if any(got is x for x in items) or any(S.same(got, x) for x in items):
        return None
    return ("member", f"{_r(got)} is not an item of the input")


def c_items(items, kind, p, got, S):
    """'x|items is the same as x.items()' (the pairs of the mapping, in its
    order); an undefined x gives an empty iterator."""
    return _exact(S, got, [tuple(kv) for kv in items])


def c_map(items, kind, args, kwargs, got, S):
    if not args and "attribute" in kwargs:
        g = getter(kwargs["attribute"], default=kwargs.get("default"))
        exp = [g(x) for x in items]
        if not _is_seq(got) or len(got) != len(exp):
            return ("result", f"got {_r(got)}, expected {_r(exp)}")
        for x, a, e in zip(items, got, exp):
            if e is MISSING:
                if not is_undefined(a):
                    return ("missing-attribute", f"item {_r(x)} lacks the attribute, got {_r(a)}")
            elif not S.same(a, e):
                aspect = "attribute"
                d = kwargs.get("default")
                if d is not None and getter(kwargs["attribute"])(x) is MISSING:
                    aspect = "default"
                    alt = getter_continue_into_default(kwargs["attribute"], d)(x)
                    if S.same(a, alt):
                        aspect = "default:path-continues-into-default"
                return (aspect, f"item {_r(x)} with attribute={kwargs['attribute']!r} "
                                f"default={d!r}: got {_r(a)}, expected {_r(e)}")
        return None
    f = MAPPABLE[args[0]]
    exp = [f(x, *args[1:], **kwargs) for x in items]
    exp = [[] if e is MISSING else e for e in exp]  # not generated
    return _exact(S, got, exp)


def c_select(name, items, kind, args, kwargs, got, S):
    attr = name.endswith("attr")
    negate = name.startswith("reject")
    a = list(args)
    tr = (lambda x: x)
    if attr:
        tr = getter(a.pop(0))
    if a:
        t = TESTS[a.pop(0)]
        pred = lambda v: bool(t(v, *a, **kwargs))  # noqa: E731
    else:
        pred = lambda v: bool(v)  # noqa: E731
    exp = [x for x in items if pred(tr(x)) != negate]
    return _exact(S, got, exp)


CONTRACTS = {
    "batch": c_batch, "slice": c_slice, "unique": c_unique, "groupby": c_groupby,
    "sort": c_sort, "dictsort": c_dictsort, "reverse": c_reverse, "first": c_first,
    "last": c_last, "min": _c_extreme(min), "max": _c_extreme(max), "sum": c_sum,
    "join": c_join, "list": c_list, "length": c_length, "count": c_length,
}
# contracts of filters that are only driven by the subject-type workload
EXTRA_CONTRACTS = {"random": c_random, "items": c_items}

ITERATOR_RESULT = {"batch", "slice", "unique", "reverse", "map", "select", "reject",
                   "selectattr", "rejectattr", "items"}
# filters whose documented Python definition builds a NEW list ("Convert the
# value into a list" = list(value); "using Python's sorted" = sorted(value)):
# the result can never be the object that was passed in
NEW_LIST_RESULT = {"list", "sort"}
ASYNC_VARIANT = {"first", "groupby", "join", "list", "map", "select", "reject",
                 "selectattr", "rejectattr", "slice", "sum", "unique"}
NEEDS_SIZED = {"length", "count"}
NEEDS_REVERSIBLE = {"last"}
ALL_FILTERS = sorted(set(CONTRACTS) | {"map", "select", "reject", "selectattr", "rejectattr"})
EXTRA_FILTERS = sorted(EXTRA_CONTRACTS)
CONTRACTS.update(EXTRA_CONTRACTS)
# a random choice: the four drives of one case legitimately return different items
NONDETERMINISTIC = {"random"}


# ------------------------------------------------------------ subject types
# What a filter may rely on is the PROTOCOL its docstring names, not the
# concrete type: "Return the first item of a sequence" = next(iter(x)) needs an
# iterable; "Return the last item of a sequence" = the first item of
# reversed(x) needs a reversible (the docstring rules generators out, nothing
# else); "number of items in a container" = len(x) needs a sized container;
# "Sort an iterable", "unique items from the given iterable", "Slice an
# iterator", "batches items", "Applies a filter on a sequence of objects",
# "sum of a sequence", "concatenation of the strings in the sequence", "Convert
# the value into a list" only iterate; dictsort "Sort a dict" and items "same as
# x.items()" need a mapping; random "a random item from the sequence" needs an
# indexable sized sequence.  The capabilities of each subject kind the harness
# builds (i iterable, s sized, r reversible, q indexable by 0..len-1, m mapping):
KIND_CAPS = {
    "list": "isrq", "tuple": "isrq", "listsub": "isrq", "str": "isrq", "range": "isrq",
    "deque": "isrq", "getitem": "isrq",
    "asdict": "isr", "odict": "isr", "dkeys": "isr", "dvalues": "isr", "ditems": "isr",
    "set": "is", "frozenset": "is", "sizediter": "is",
    "gen": "i", "iter": "i", "agen": "i", "aiter": "i",
    "revlen": "sr",
    # "the default behavior is to evaluate to an empty string if printed or
    # iterated over, and to fail for every other operation" (templates.rst)
    "undef": "i",
    "dict": "m", "m:odict": "m", "m:proxy": "m", "m:abc": "m", "m:userdict": "m",
    "m:defaultdict": "m",
}
REQUIRES = {"last": "r", "length": "s", "count": "s", "dictsort": "m", "items": "m",
            "random": "q"}
KIND_GROUP = {
    "asdict": "dict", "odict": "dict", "dkeys": "dict-view", "dvalues": "dict-view",
    "ditems": "dict-view", "set": "set", "frozenset": "set", "str": "str", "range": "range",
    "deque": "deque", "listsub": "list-subclass", "getitem": "getitem-len-object",
    "revlen": "reversed-len-object", "sizediter": "iter-len-object", "iter": "iter-object",
    "gen": "generator", "undef": "undefined", "list": "list", "tuple": "tuple",
    "m:odict": "mapping-type", "m:proxy": "mapping-type", "m:abc": "mapping-type",
    "m:userdict": "mapping-type", "m:defaultdict": "mapping-type", "dict": "dict",
}
# filters whose contract does not look inside the elements (so the elements may
# be the (index, item) pairs of a dict.items() view)
ELEMENT_AGNOSTIC = {"first", "last", "length", "count", "list", "reverse", "batch", "slice",
                    "random"}


def covered(name, kind):
    """Does the documentation define the result of ``name`` on a subject of
    this kind?  If not, only sync/async/template agreement is demanded."""
    caps = KIND_CAPS[kind]
    if kind == "undef":
        # iterates as empty; nothing else is promised
        return REQUIRES.get(name, "i") == "i" or name == "items"
    return REQUIRES.get(name, "i") in caps


# ------------------------------------------------------------ case folding
# The six comparison filters share one documented notion of "case insensitive"
# (case_sensitive=False, the default): "sort the dict by key, case insensitive"
# (dictsort), "When sorting strings, sort upper and lower case separately"
# (sort, case_sensitive=True), "Treat upper and lower case strings as
# distinct" (unique/min/max, case_sensitive=True), "the key for each group will
# have the case of the first item" / "the lowercase key" (groupby), and the
# shared key post-processor ignore_case: "Converts strings to lowercase and
# returns other types as-is".  The contract therefore compares str.lower() of
# the keys.  Characters with special case mappings (sharp s, ligatures, long s,
# final sigma, dotless i, micro sign ...) make str.lower() differ from other
# caseless forms (str.casefold(), upper-then-lower), so they tell a change of
# the normalisation function apart.
#
# Two readings stay open only for a pair of keys that differ under lower() and
# are nevertheless case variants of each other in the everyday sense ('ß' and
# 'SS', 'ς' and 'Σ', 'ſ' and 'S': one is the upper-casing of the other).  An
# input containing such a pair is AMBIGUOUS: a result is accepted if it is what
# lower() or what one of the ALT caseless forms gives.  Every other input is
# STRICT, in particular: two strings that are both entirely lower-case (or both
# upper-case) and differ ('ß' / 'ss', 'ﬁ' / 'fi', 'µ' / 'μ') do not differ in
# case at all, so ignoring case can neither merge nor reorder them - on an
# all-lower-case input case_sensitive=False must behave like plain Python
# comparison.
FOLDING = {"unique", "sort", "groupby", "min", "max", "dictsort"}
ALT = (("casefold", str.casefold), ("upper-then-lower", lambda s: s.upper().lower()))


def is_special(s):
    """A string on which the caseless forms disagree with str.lower()."""
    lo = s.lower()
    return s.casefold() != lo or s.upper().lower() != lo


def string_keys(name, items, p):
    """The distinct str keys (before any case normalisation) the filter
    compares, in order of first appearance."""
    if name == "dictsort":
        pos = {"key": 0, "value": 1}[p["by"]]
        vals = [kv[pos] for kv in items]
    elif name == "sort":
        mg = multi_getter(p["attribute"])
        vals = [k for x in items for k in mg(x)]
    elif name == "groupby":
        g = getter(p["attribute"], default=p["default"])
        vals = [g(x) for x in items]
    else:
        g = getter(p["attribute"])
        vals = [g(x) for x in items]
    out = []
    seen = set()
    for v in vals:
        if isinstance(v, str) and v not in seen:
            seen.add(v)
            out.append(v)
    return out


def fold_profile(keys):
    """special: some key has a special case mapping; ambiguous: some pair of
    keys differs under lower() yet is a case variant pair (see above);
    discriminating: lower() and an ALT form identify or order some pair of
    keys differently (the input can tell the normalisers apart)."""
    prof = {"special": False, "ambiguous": False, "discriminating": False}
    if not any(is_special(k) for k in keys):
        return prof
    prof["special"] = True
    lo = [k.lower() for k in keys]
    up = [k.upper() for k in keys]
    alts = [[f(k) for k in keys] for _, f in ALT]
    n = len(keys)
    for i in range(n):
        for j in range(i + 1, n):
            for a in alts:
                if (lo[i] == lo[j]) != (a[i] == a[j]) or (lo[i] < lo[j]) != (a[i] < a[j]):
                    prof["discriminating"] = True
            if lo[i] == lo[j]:
                continue
            if up[i] != up[j] and all(a[i] != a[j] for a in alts):
                continue
            both_lower = keys[i] == lo[i] and keys[j] == lo[j]
            both_upper = keys[i] == up[i] and keys[j] == up[j]
            if not (both_lower or both_upper):
                prof["ambiguous"] = True
    return prof


def check(name, items, kind, args, kwargs, got, S, info=None):
    """None if the result satisfies the documented contract of ``name``.
    ``info`` (a dict) receives the case-folding profile of the input for the
    six comparison filters."""
    if name == "map":
        return c_map(items, kind, args, kwargs, got, S)
    if name in ("select", "reject", "selectattr", "rejectattr"):
        return c_select(name, items, kind, args, kwargs, got, S)
    p = bind(name, args, kwargs)
    contract = CONTRACTS[name]
    v = contract(items, kind, p, got, S)
    if name not in FOLDING:
        return v
    prof = fold_profile(string_keys(name, items, p))
    if info is not None:
        info.update(prof)
        info["case_sensitive"] = bool(p["case_sensitive"])
    if v is None or p["case_sensitive"] or not prof["special"]:
        return v
    forms = [altname for altname, alt in ALT
             if contract(items, kind, p, got, S, fold=alt) is None]
    if forms:
        if prof["ambiguous"]:
            return None     # the second reading of an ambiguous input
        return ("case-insensitive:keys-not-compared-lower-cased",
                v[1] + f" - the result is what comparing the {' / '.join(forms)} form of the keys "
                       f"gives; documented: case insensitive = strings converted to lowercase, "
                       f"and no two of the differing keys are case variants of each other")
    return v
