"""C15 oracle: remove the markup that urlize / xmlattr are documented to emit
(recognised strictly), then every raw < > ' " in the rendered output is a leak
(" is tolerated in templates using tojson unless it sits between two copies
of a nonce, because tojson documents its output as unsafe only inside
double-quoted attributes and writes a data quote as \\")."""
from __future__ import annotations

import re

_A_OPEN = re.compile(r'<a href="[^"<>\'\s]*"(?: rel="[^"<>\']*")?(?: target="[^"<>\']*")?>')
_A_CLOSE = "</a>"


def clean(out: str, use_urlize: bool, use_xmlattr: bool, xml_keys):
    if use_urlize:
        # only balanced open/close pairs are removed
        parts = []
        i = 0
        while True:
            m = _A_OPEN.search(out, i)
            if not m:
                parts.append(out[i:])
                break
            k = out.find(_A_CLOSE, m.end())
            if k < 0:
                parts.append(out[i:])
                break
            inner = out[m.end():k]
            if "<" in inner:
                parts.append(out[i:m.end()])
                i = m.end()
                continue
            parts.append(out[i:m.start()])
            parts.append(inner)
            i = k + len(_A_CLOSE)
        out = "".join(parts)
    if use_xmlattr:
        keys = "|".join(re.escape(k) for k in xml_keys)
        out = re.sub(r'(?:' + keys + r')="[^"<>\']*"', "", out)
    return out


def leaks(cleaned: str, nonces, use_tojson: bool):
    """-> list of (char, nonce|None) for every raw metacharacter."""
    res = []
    for m in re.finditer(r"[<>'\"]", cleaned):
        p = m.start()
        ch = m.group()
        before = cleaned[max(0, p - 5):p]
        after = cleaned[p + 1:p + 6]
        nb = before if before in nonces else None
        na = after if after in nonces else None
        if ch == '"' and use_tojson and not (nb and na):
            continue
        res.append((ch, nb or na))
    return res
