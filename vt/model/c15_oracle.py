"""C15 oracle: remove the markup that urlize / xmlattr are documented to emit
(recognised strictly), then every raw < > ' " in the rendered output is a leak
(" is tolerated in templates using tojson unless it sits between two copies
of a nonce, because tojson documents its output as unsafe only inside
double-quoted attributes and writes a data quote as \\")."""
from __future__ import annotations

import re

_A_OPEN = re.compile(r'<a href="[^"<>\'\s]*"(?: rel="[^"<>\']*")?(?: target="[^"<>\']*")?>')
_A_CLOSE = "</a>"


def clean(out: str, use_urlize: bool, use_xmlattr: bool, xml_keys):
    if use_urlize:
        # only balanced open/close pairs are removed
        parts = []
        i = 0
        while True:
            m = _A_OPEN.search(out, i)
            if not m:
                parts.append(out[i:])
                break
            k = out.find(_A_CLOSE, m.end())
            if k < 0:
                parts.append(out[i:])
                break
            inner = out[m.end():k]
            if "<" in inner:
                parts.append(out[i:m.end()])
                i = m.end()
                continue
            parts.append(out[i:m.start()])
            parts.append(inner)
            i = k + len(_A_CLOSE)
        out = "".join(parts)
    if use_xmlattr:
        keys = "|".join(re.escape(k) for k in xml_keys)
        out = re.sub(r'(?:' + keys + r')="[^"<>\']*"', "", out)
    return out


def leaks(cleaned: str, nonces, use_tojson: bool = False):
    """-> (strong, n_other).  strong: list of (char, nonce) for every raw
    metacharacter that sits between two copies of one nonce (or of its
    reversal, for |reverse / [::-1]) -- the generators put the nonce on both
    sides of every metacharacter of a datum, so this proves the character is
    the datum's own.  n_other counts the remaining raw metacharacters: repr
    quotes of pprint/list/dict output, tojson string quotes, remnants of
    documented markup ... which are not characters of data or literals."""
    strong = []
    other = 0
    for m in re.finditer(r"[<>'\"]", cleaned):
        p = m.start()
        before = cleaned[max(0, p - 5):p]
        after = cleaned[p + 1:p + 6]
        if before == after and len(before) == 5:
            if before in nonces:
                strong.append((m.group(), before))
                continue
            if before[::-1] in nonces:
                strong.append((m.group(), before[::-1]))
                continue
        other += 1
    return strong, other
