"""C15 oracle: remove the markup that urlize / xmlattr are documented to emit
(recognised strictly), then every raw < > ' " in the rendered output is a leak
(" is tolerated in templates using tojson unless it sits between two copies
of a nonce, because tojson documents its output as unsafe only inside
double-quoted attributes and writes a data quote as \\")."""
from __future__ import annotations

import re

_A_OPEN = re.compile(r'<a href="[^"<>\'\s]*"(?: rel="[^"<>\']*")?(?: target="[^"<>\']*")?>')
_A_CLOSE = "</a>"


_ESC = {"&": "&amp;", "<": "&lt;", ">": "&gt;", "'": "&#39;", '"': "&#34;"}


def escaped_form(s: str) -> str:
    """HTML-escaped form of a plain string (docs/api.rst `escape`: "Convert the
    characters &, <, >, ', and \" in string s to HTML-safe sequences")."""
    return "".join(_ESC.get(c, c) for c in s)


def key_passes_validation(k: str) -> bool:
    """xmlattr docstring: a key containing a space, '/', '>' or '=' fails."""
    return not re.search(r"[\s/>=]", k)


def clean(out: str, use_urlize: bool, use_xmlattr: bool, xml_keys, key_strings=()):
    """`key_strings`: the plain strings the case feeds to xmlattr as attribute
    names.  A name="value" pair is recognised as documented xmlattr markup (and
    removed) only when its name is one of the fixed metacharacter-free keys or
    the *escaped* form of such a key string - never when the name part itself
    contains a raw metacharacter."""
    if use_urlize:
        # only balanced open/close pairs are removed
        parts = []
        i = 0
        while True:
            m = _A_OPEN.search(out, i)
            if not m:
                parts.append(out[i:])
                break
            k = out.find(_A_CLOSE, m.end())
            if k < 0:
                parts.append(out[i:])
                break
            inner = out[m.end():k]
            if "<" in inner:
                parts.append(out[i:m.end()])
                i = m.end()
                continue
            parts.append(out[i:m.start()])
            parts.append(inner)
            i = k + len(_A_CLOSE)
        out = "".join(parts)
    if use_xmlattr:
        names = set(xml_keys)
        for k in key_strings:
            if isinstance(k, str) and k and key_passes_validation(k):
                names.add(escaped_form(k))
        names = sorted((n for n in names if not re.search(r"[<>'\"]", n)), key=lambda n: (-len(n), n))
        keys = "|".join(re.escape(k) for k in names)
        out = re.sub(r'(?:' + keys + r')="[^"<>\']*"', "", out)
    return out


def leaks(cleaned: str, nonces, use_tojson: bool = False):
    """-> (strong, n_other).  strong: list of (char, nonce) for every raw
    metacharacter that sits between two copies of one nonce (or of its
    reversal, for |reverse / [::-1]) -- the generators put the nonce on both
    sides of every metacharacter of a datum, so this proves the character is
    the datum's own.  n_other counts the remaining raw metacharacters: repr
    quotes of pprint/list/dict output, tojson string quotes, remnants of
    documented markup ... which are not characters of data or literals."""
    strong = []
    other = 0
    for m in re.finditer(r"[<>'\"]", cleaned):
        p = m.start()
        before = cleaned[max(0, p - 5):p]
        after = cleaned[p + 1:p + 6]
        if before == after and len(before) == 5:
            if before in nonces:
                strong.append((m.group(), before))
                continue
            if before[::-1] in nonces:
                strong.append((m.group(), before[::-1]))
                continue
        other += 1
    return strong, other
