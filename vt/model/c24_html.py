"""C24 oracles: a small WHATWG start-tag attribute tokenizer, a strict
parser for the output of ``urlize`` and nonce leak scanning.

Nothing here imports jinja2: the oracles are written from the HTML standard
(attribute tokenizer states) and the filter documentation.
"""
from __future__ import annotations

import html
import re

HTML_WS = "\t\n\f\r "  # WHATWG ASCII whitespace (CR is normalised to LF by the preprocessor)
MARKUP_CHARS = "<>\"'"


class TokenizeError(Exception):
    pass


def tokenize_start_tag(s: str):
    """Tokenise ``s`` which must start with ``<`` + tag name.  Follows the
    WHATWG tokenizer states tag name / before attribute name / attribute name /
    after attribute name / before attribute value / attribute value (double,
    single, unquoted) / after attribute value (quoted) / self-closing start tag.
    Names are NOT lower-cased and character references are left undecoded.
    Returns (tag_name, [(name, raw_value)], index_of_closing_gt, parse_errors).
    """
    if not s.startswith("<"):
        raise TokenizeError("no <")
    n = len(s)
    i = 1
    tag = []
    attrs = []
    errors = []
    name = None
    val = None

    def flush():
        nonlocal name, val
        if name is not None:
            attrs.append(("".join(name), "".join(val)))
        name = None
        val = None

    state = "tag"
    while True:
        c = s[i] if i < n else None
        if state == "tag":
            if c is None:
                raise TokenizeError("eof in tag")
            if c in HTML_WS:
                state = "before_name"
            elif c == "/":
                state = "self_closing"
            elif c == ">":
                return "".join(tag), attrs, i, errors
            else:
                tag.append(c)
            i += 1
        elif state == "before_name":
            if c is None:
                raise TokenizeError("eof in tag")
            if c in HTML_WS:
                i += 1
            elif c in "/>":
                state = "after_name"
            elif c == "=":
                errors.append("unexpected-equals-sign-before-attribute-name")
                flush()
                name, val = ["="], []
                state = "name"
                i += 1
            else:
                flush()
                name, val = [], []
                state = "name"
        elif state == "name":
            if c is None or c in HTML_WS or c in "/>":
                state = "after_name"
            elif c == "=":
                state = "before_value"
                i += 1
            else:
                if c in "\"'<":
                    errors.append("unexpected-character-in-attribute-name")
                name.append(c)
                i += 1
        elif state == "after_name":
            if c is None:
                raise TokenizeError("eof in tag")
            if c in HTML_WS:
                i += 1
            elif c == "/":
                state = "self_closing"
                i += 1
            elif c == "=":
                state = "before_value"
                i += 1
            elif c == ">":
                flush()
                return "".join(tag), attrs, i, errors
            else:
                flush()
                name, val = [], []
                state = "name"
        elif state == "before_value":
            if c is None:
                raise TokenizeError("eof in tag")
            if c in HTML_WS:
                i += 1
            elif c == '"':
                state = "dq"
                i += 1
            elif c == "'":
                state = "sq"
                i += 1
            elif c == ">":
                errors.append("missing-attribute-value")
                flush()
                return "".join(tag), attrs, i, errors
            else:
                state = "unq"
        elif state in ("dq", "sq"):
            if c is None:
                raise TokenizeError("eof in attribute value")
            if c == ('"' if state == "dq" else "'"):
                state = "after_value"
            else:
                val.append(c)
            i += 1
        elif state == "unq":
            if c is None:
                raise TokenizeError("eof in tag")
            if c in HTML_WS:
                state = "before_name"
                i += 1
            elif c == ">":
                flush()
                return "".join(tag), attrs, i, errors
            else:
                if c in "\"'<=`":
                    errors.append("unexpected-character-in-unquoted-attribute-value")
                val.append(c)
                i += 1
        elif state == "after_value":
            if c is None:
                raise TokenizeError("eof in tag")
            if c in HTML_WS:
                state = "before_name"
                i += 1
            elif c == "/":
                state = "self_closing"
                i += 1
            elif c == ">":
                flush()
                return "".join(tag), attrs, i, errors
            else:
                errors.append("missing-whitespace-between-attributes")
                state = "before_name"
        elif state == "self_closing":
            if c is None:
                raise TokenizeError("eof in tag")
            if c == ">":
                flush()
                return "".join(tag), attrs, i, errors
            errors.append("unexpected-solidus-in-tag")
            state = "before_name"
        else:  # pragma: no cover
            raise AssertionError(state)


KEY_REJECT_CHARS = " \t\n\r\f/>="  # documented: space, '/', '>', '='; plus the other HTML whitespace


def key_must_be_rejected(key: str) -> bool:
    return any(c in KEY_REJECT_CHARS for c in key)


def check_xmlattr(out: str, items, autospace: bool):
    """items: [(key, text_value)] expected to be emitted, in order.
    Returns None or (mechanism_suffix, description)."""
    if not items:
        if out != "":
            return "nonempty-for-empty", f"no item to emit but output is {out!r}"
        return None
    if autospace:
        if not out.startswith(" "):
            return "autospace", f"autospace output does not start with a space: {out!r}"
        doc = "<x" + out + ">"
    else:
        if out[:1] in HTML_WS:
            return "autospace", f"autospace=False output starts with whitespace: {out!r}"
        doc = "<x " + out + ">"
    try:
        tag, attrs, end, errs = tokenize_start_tag(doc)
    except TokenizeError as e:
        return "tokenize", f"output does not tokenise as attributes of one tag ({e}): {out!r}"
    if tag != "x":
        return "tag-name", f"tag name became {tag!r}: {out!r}"
    if end != len(doc) - 1:
        return "tag-closed-early", f"tag ended at {end} of {len(doc)-1}: {out!r} attrs={attrs}"
    if len(attrs) != len(items):
        return "attr-count", f"{len(attrs)} attributes tokenised, {len(items)} expected: {out!r} -> {attrs}"
    for (name, raw), (key, text) in zip(attrs, items):
        if name != key and html.unescape(name) != key:
            return "attr-name", f"attribute name {name!r} for key {key!r}: {out!r}"
        if html.unescape(raw) != text:
            return "attr-value", f"value {raw!r} does not unescape to {text!r}: {out!r}"
        if any(c in raw for c in MARKUP_CHARS):
            return "attr-value-raw", f"raw markup character in value {raw!r}: {out!r}"
    return None


# ----------------------------------------------------------------- urlize
_ANCHOR_OPEN = re.compile(
    r'<a href="([^"<>]*)"(?: rel="([^"<>]*)")?(?: target="([^"<>]*)")?>', re.S
)


def parse_urlize(out: str):
    """Split urlize output into ('text', s) and ('a', href, rel, target, inner).
    Raises TokenizeError with a short reason code as first arg."""
    parts = []
    i = 0
    n = len(out)
    while i < n:
        j = out.find("<", i)
        if j < 0:
            parts.append(("text", out[i:]))
            break
        if j > i:
            parts.append(("text", out[i:j]))
        m = _ANCHOR_OPEN.match(out, j)
        if not m:
            raise TokenizeError("stray-lt", f"'<' at {j} does not start a well-formed anchor: {out[j:j+80]!r}")
        k = out.find("</a>", m.end())
        if k < 0:
            raise TokenizeError("unclosed-anchor", f"anchor at {j} is not closed: {out[j:j+80]!r}")
        inner = out[m.end():k]
        parts.append(("a", m.group(1), m.group(2), m.group(3), inner))
        i = k + 4
    return parts


def check_urlize(out: str, rel_expected, target_expected):
    """rel_expected: set of rel tokens every http/extra-scheme link must carry
    (None = do not check); target_expected: string or None.  mailto links are
    allowed to omit rel/target (docs are silent), but when present the values
    must still be well-formed.  Returns (None|(suffix, what), n_anchors)."""
    try:
        parts = parse_urlize(out)
    except TokenizeError as e:
        return (e.args[0], e.args[1]), 0
    na = 0
    for p in parts:
        if p[0] == "text":
            bad = [c for c in MARKUP_CHARS if c in p[1]]
            if bad:
                return ("text-markup", f"text outside anchors contains {bad}: {p[1][:80]!r}"), na
            continue
        _, href, rel, target, inner = p
        na += 1
        if re.search(r"\s", href):
            return ("href-whitespace", f"href contains whitespace: {href!r}"), na
        if "'" in href:
            return ("href-unescaped", f"href contains a raw quote: {href!r}"), na
        if href == "":
            return ("href-empty", "empty href"), na
        for label, v in (("rel", rel), ("target", target)):
            if v is not None and "'" in v:
                return (label + "-unescaped", f"{label} contains a raw quote: {v!r}"), na
        bad = [c for c in MARKUP_CHARS if c in inner]
        if bad:
            return ("anchor-text-markup", f"anchor text contains {bad}: {inner[:80]!r}"), na
        is_mail = href.startswith("mailto:")
        if rel is not None and rel_expected is not None:
            if set(html.unescape(rel).split()) != rel_expected:
                return ("rel-roundtrip", f"rel {rel!r} does not unescape to tokens {sorted(rel_expected)}"), na
        if target is not None and target_expected is not None:
            if html.unescape(target) != target_expected:
                return ("target-roundtrip", f"target {target!r} does not unescape to {target_expected!r}"), na
        if not is_mail:
            if rel_expected and rel is None:
                return ("rel-missing", f"link {href!r} lacks rel {sorted(rel_expected)}"), na
            if target_expected and target is None:
                return ("target-missing", f"link {href!r} lacks target {target_expected!r}"), na
            if not target_expected and target is not None:
                return ("target-unexpected", f"link {href!r} has target {target!r}"), na
    return None, na


# ------------------------------------------------------------------ nonces
def nonce_leaks(text: str, nonce: str):
    """Raw markup characters sitting between two copies of the nonce (the
    generators put the nonce on both sides of every markup character, so
    markup of the safe subject that merely adjoins the argument never counts)."""
    return re.findall("(?<=" + nonce + ")[<>\"'](?=" + nonce + ")", text)


def nonce_arrived_escaped(text: str, nonce: str) -> bool:
    return re.search(nonce + r"&(?:lt|gt|#34|#39|quot|#x27|apos);", text) is not None


def independently_escaped(src: str, out: str):
    """out is an HTML-escaped form of src: no raw markup chars, every '&'
    starts a character reference, and unescaping gives src back."""
    if any(c in out for c in MARKUP_CHARS):
        return "raw markup character in escaped text"
    if re.search(r"&(?!(?:#\d+|#[xX][0-9a-fA-F]+|[A-Za-z][A-Za-z0-9]*);)", out):
        return "bare ampersand in escaped text"
    if html.unescape(out) != src:
        return "escaped text does not unescape to the source"
    return None
